#!/bin/bash
# usage: seedcheck.sh <name> <srcdir containing out/patch.diff out/demo_test.go out/meta.json> <check ids...>
# Confirms a seeded change independently in a scratch worktree, runs the given quick checks against it,
# and files it under /verif/seeded/<name>/.
set -u
NAME=$1; SRC=$2; shift 2
export GOFLAGS=-mod=mod GOPROXY=off
W=/tmp/seedchk/$NAME
rm -rf $W; mkdir -p /tmp/seedchk
git -C /repo worktree add -q --detach $W HEAD || exit 2
res() { echo "$1" | tee -a $W.log; }
: > $W.log
cd $W
# 1. clean tree: demo passes
cp $SRC/out/demo_test.go $W/zz_demo_test.go
T=$(grep -o 'func TestSeeded[A-Za-z0-9_]*' zz_demo_test.go | head -1 | sed 's/func //')
if go test -vet=off -count=1 ${DEMOFLAGS:-} -run "^$T\$" . > $W.clean.txt 2>&1; then res "demo on clean tree: PASS (expected)"; CLEAN=ok; else res "demo on clean tree: FAIL (unexpected)"; CLEAN=bad; fi
rm -f zz_demo_test.go
# 2. apply patch: suite passes
if ! git apply $SRC/out/patch.diff; then res "patch does not apply"; cd /; git -C /repo worktree remove --force $W; exit 2; fi
if go test -vet=off -count=1 ./... > $W.suite.txt 2>&1; then res "existing suite with change: PASS (expected)"; SUITE=ok; else res "existing suite with change: FAIL (unexpected)"; SUITE=bad; fi
cp $SRC/out/demo_test.go $W/zz_demo_test.go
if go test -vet=off -count=1 ${DEMOFLAGS:-} -run "^$T\$" . > $W.mut.txt 2>&1; then res "demo with change: PASS (unexpected)"; MUT=bad; else res "demo with change: FAIL (expected)"; MUT=ok; fi
rm -f zz_demo_test.go
# 3. checks against the changed tree
mkdir -p $W.vout
DET=""; RES=""
for c in "$@"; do
  OUT=$(VERIF_REPO=$W VERIF_OUT=$W.vout timeout 2400 /verif/bin/artsym check $c --tier ${TIER:-quick} 2>&1)
  code=$?
  line=$(echo "$OUT" | grep "tier=" | tail -1)
  det=$(echo "$OUT" | grep "detail:" | head -2 | cut -c1-300)
  res "check $c -> exit $code | $line"
  [ -n "$det" ] && res "$det"
  [ $code -eq 1 ] && DET="$DET $c"
  RES="$RES $c=$code"
done
res "detected-by:$DET"
mkdir -p /verif/seeded/$NAME
cp $SRC/out/patch.diff $SRC/out/demo_test.go /verif/seeded/$NAME/
python3 - "$NAME" "$SRC" "$W.log" "$CLEAN" "$SUITE" "$MUT" "$DET" "$*" "$RES" <<'PY'
import json,sys,os
name,src,log,clean,suite,mut,det,checks,res=sys.argv[1:10]
old={}
try: old=json.load(open('/verif/seeded/%s/meta.json'%name))
except Exception: pass
try: meta=json.load(open(src+'/out/meta.json'))
except Exception as e: meta={"summary":"(meta.json unreadable: %s)"%e}
meta['name']=name
meta['confirmed']={"demo_passes_on_clean_tree":clean=='ok',"existing_suite_passes_with_change":suite=='ok',"demo_fails_with_change":mut=='ok'}
# latest outcome per check (exit code of the quick tier against the changed tree: 1 = VIOLATION, 0 = not flagged, 2 = inconclusive)
results=dict(old.get('results',{}))
for c in old.get('checks_run',[]):
    results.setdefault(c, 1 if c in old.get('detected_by',[]) else 0)
for kv in res.split():
    c,code=kv.split('='); results[c]=int(code)
meta['results']=results
meta['checks_run']=sorted(results)
meta['detected_by']=sorted(c for c,v in results.items() if v==1)
meta['what_i_ran']=open(log).read().splitlines()
json.dump(meta,open('/verif/seeded/%s/meta.json'%name,'w'),indent=1)
PY
cd /; git -C /repo worktree remove --force $W; rm -rf $W.vout $W.*.txt
cat $W.log | tail -3; rm -f $W.log
