package main

// Path condition, model pool, forking (decision-prefix protocol) and deferred assertion checking.

import (
	"fmt"
	"os"
	"time"

	"golang.org/x/tools/go/ssa"
)

type pModel struct {
	m    Model
	ctx  *evalCtx
	upTo int // PC conjuncts [0,upTo) verified true under m
}

type pendingCheck struct {
	n     int // len(pc) at the point of the check
	cond  *Term
	kind  string
	tag   string
	instr ssa.Instruction
	nvars int
}

func (p *Path) simp(c *Term) *Term {
	if c.op == OConst || len(p.known) == 0 {
		return c
	}
	return p.ts.Subst(c, p.known, p.substMemo)
}

func (p *Path) learn(c *Term) {
	switch c.op {
	case OAnd:
		p.learn(c.a)
		p.learn(c.b)
		return
	case ONot:
		if c.a.op == OOr {
			p.learn(p.ts.Not(c.a.a))
			p.learn(p.ts.Not(c.a.b))
			return
		}
		if _, ok := p.known[c.a]; !ok {
			p.known[c.a] = 0
			p.substMemo = map[*Term]*Term{}
		}
		return
	case OEq:
		if c.b.op == OConst && c.a.op != OConst {
			if _, ok := p.known[c.a]; !ok {
				p.known[c.a] = c.b.k
				p.substMemo = map[*Term]*Term{}
			}
		}
	}
	if c.op != OConst {
		if _, ok := p.known[c]; !ok {
			p.known[c] = 1
			p.substMemo = map[*Term]*Term{}
		}
	}
}

func (p *Path) addPC(c *Term) {
	if c.IsTrue() {
		return
	}
	p.pc = append(p.pc, c)
	p.learn(c)
}

func (p *Path) addModel(m Model) *pModel {
	if m == nil {
		return nil
	}
	pm := &pModel{m: m, ctx: &evalCtx{m: m, memo: map[*Term]uint64{}}}
	if len(p.models) >= 6 {
		copy(p.models, p.models[1:])
		p.models = p.models[:len(p.models)-1]
	}
	p.models = append(p.models, pm)
	return pm
}

// valid re-validates pm against the PC conjuncts added since it was last checked.
func (p *Path) valid(pm *pModel) bool {
	for pm.upTo < len(p.pc) {
		if pm.ctx.eval(p.pc[pm.upTo]) == 0 {
			return false
		}
		pm.upTo++
	}
	return true
}

// findModel returns a pooled model satisfying PC ∧ c, dropping models the PC has left behind.
func (p *Path) findModel(c *Term) Model {
	out := p.models[:0]
	var hit Model
	for _, pm := range p.models {
		if !p.valid(pm) {
			continue
		}
		out = append(out, pm)
		if hit == nil && (c.IsTrue() || pm.ctx.eval(c) == 1) {
			hit = pm.m
		}
	}
	p.models = out
	return hit
}

func (p *Path) flushPC() {
	if !p.inScope {
		p.solver.BeginPath()
		p.inScope = true
	}
	for ; p.declVars < len(p.vars); p.declVars++ {
		p.solver.ensure(p.vars[p.declVars])
	}
	for ; p.asserted < len(p.pc); p.asserted++ {
		if err := p.solver.Assert(p.pc[p.asserted]); err != nil {
			p.abort(abInconclusive, "smt encoding: %v", err)
		}
	}
}

// feasible: is PC ∧ c satisfiable? Returns a model when it is.
func (p *Path) feasible(c *Term) (bool, Model) {
	c = p.simp(c)
	if c.IsFalse() {
		return false, nil
	}
	if m := p.findModel(c); m != nil {
		return true, m
	}
	tq := time.Now()
	if p.curInstr != nil && os.Getenv("VERIF_QSITES") != "" {
		qsMu.Lock()
		qSites[p.where()+" "+fmt.Sprint(p.curInstr)]++
		qsMu.Unlock()
	}
	p.flushPC()
	var extra *Term
	if !c.IsTrue() {
		extra = c
	}
	res, m, msg := p.solver.CheckWith(extra, p.vars)
	p.solverWall += time.Since(tq)
	switch res {
	case RSat:
		if m == nil {
			m = Model{}
		}
		pm := p.addModel(m)
		pm.upTo = len(p.pc)
		return true, m
	case RUnsat:
		return false, nil
	case RUnknown:
		p.sawUnknown = true
		p.abort(abInconclusive, "solver returned unknown (%s) at %s", msg, p.where())
	}
	p.abort(abInconclusive, "solver error: %s at %s", msg, p.where())
	return false, nil
}

func (p *Path) replaying() bool { return p.nDec < len(p.decisions) }

func (p *Path) take(d int64, c *Term) {
	p.taken = append(p.taken, d)
	p.nDec++
	p.addPC(c)
}

// branch decides a symbolic boolean, forking if both sides are feasible.
func (p *Path) branch(c *Term) bool {
	c = p.simp(c)
	if c.op == OConst {
		return c.k != 0
	}
	nc := p.ts.Not(c)
	if p.replaying() {
		d := p.decisions[p.nDec]
		if d == 1 {
			p.take(1, c)
		} else {
			p.take(0, nc)
		}
		return d == 1
	}
	ft, _ := p.feasible(c)
	ff, mf := p.feasible(nc)
	switch {
	case ft && ff:
		p.enqueueAlt(0, mf)
		p.take(1, c)
		return true
	case ft:
		p.take(1, c)
		return true
	case ff:
		p.take(0, nc)
		return false
	}
	p.abort(abKilled, "infeasible path")
	return false
}

func (p *Path) enqueueAlt(d int64, m Model) {
	dec := make([]int64, len(p.taken)+1)
	copy(dec, p.taken)
	dec[len(p.taken)] = d
	p.newWork = append(p.newWork, WorkItem{scn: p.scn, decisions: dec, model: m})
}

// choose: n-way fork over mutually exclusive conditions; returns the index taken.
func (p *Path) choose(alts []*Term) int {
	cnt := 0
	for i := range alts {
		alts[i] = p.simp(alts[i])
		if alts[i].IsTrue() {
			return i
		}
		if !alts[i].IsFalse() {
			cnt++
		}
	}
	if cnt == 0 {
		p.abort(abKilled, "choose: no alternative")
	}
	if p.replaying() {
		d := int(p.decisions[p.nDec])
		p.take(int64(d), alts[d])
		return d
	}
	type fe struct {
		i int
		m Model
	}
	var fs []fe
	for i, a := range alts {
		if a.IsFalse() {
			continue
		}
		if ok, m := p.feasible(a); ok {
			fs = append(fs, fe{i, m})
		}
	}
	if len(fs) == 0 {
		p.abort(abKilled, "choose: infeasible")
	}
	for _, f := range fs[1:] {
		p.enqueueAlt(int64(f.i), f.m)
	}
	p.take(int64(fs[0].i), alts[fs[0].i])
	return fs[0].i
}

// concretize forks over the feasible values of t.
func (p *Path) concretize(t *Term, what string) uint64 {
	t = p.simp(t)
	if t.op == OConst {
		return t.k
	}
	if p.replaying() {
		v := uint64(p.decisions[p.nDec])
		p.take(int64(v), p.ts.Eq(t, p.ts.Const(t.w, v)))
		return v
	}
	type fe struct {
		v uint64
		m Model
	}
	var fs []fe
	excl := p.ts.True
	for {
		ok, m := p.feasible(excl)
		if !ok {
			break
		}
		v := Eval(t, m)
		fs = append(fs, fe{v, m})
		excl = p.ts.And(excl, p.ts.Ne(t, p.ts.Const(t.w, v)))
		if len(fs) > 300 {
			p.abort(abInconclusive, "concretize(%s): more than 300 values at %s", what, p.where())
		}
	}
	if len(fs) == 0 {
		p.abort(abKilled, "concretize: infeasible")
	}
	for _, f := range fs[1:] {
		p.enqueueAlt(int64(f.v), f.m)
	}
	p.take(int64(fs[0].v), p.ts.Eq(t, p.ts.Const(t.w, fs[0].v)))
	return fs[0].v
}

// check: a deferred assertion. It is decided at the end of the path by one query over
// OR_i (PC[0:n_i] ∧ ¬c_i); execution continues without assuming c.
func (p *Path) check(c *Term, kind, tag string) {
	c = p.simp(c)
	if c.IsTrue() {
		return
	}
	if p.replaying() {
		return // examined by the path that created this point
	}
	p.pending = append(p.pending, pendingCheck{n: len(p.pc), cond: c, kind: kind, tag: tag, instr: p.curInstr, nvars: len(p.vars)})
}

// assume adds c to the path condition, killing the path if nothing satisfies it.
func (p *Path) addPCOrKill(c *Term) {
	c = p.simp(c)
	if c.IsFalse() {
		p.abort(abKilled, "assumption false on every model")
	}
	if c.IsTrue() {
		return
	}
	if p.replaying() {
		// no decision is consumed; the forking path established feasibility of the whole prefix
		p.addPC(c)
		return
	}
	ok, _ := p.feasible(c)
	if !ok {
		p.abort(abKilled, "no model satisfies the assumption")
	}
	p.addPC(c)
}

func (p *Path) fullModel(m Model) Model {
	out := Model{}
	for _, v := range p.vars {
		out[v.name] = m[v.name]
	}
	return out
}

func (p *Path) recordViolationAt(kind, tag, where string, m Model, nvars int) {
	if p.eng.suppress != nil && p.eng.suppress(kind, tag) {
		return
	}
	fm := p.fullModel(m)
	tape := make([]TapeEntry, 0, len(p.vars))
	for i, v := range p.vars {
		if nvars >= 0 && i >= nvars {
			break
		}
		tape = append(tape, TapeEntry{W: v.w, V: fm[v.name]})
	}
	p.violations = append(p.violations, Violation{Kind: kind, Tag: tag, Where: where, Model: fm, Tape: tape, Scn: p.scn, PCSize: len(p.pc)})
}

func (p *Path) recordViolation(kind, tag string, m Model) {
	p.recordViolationAt(kind, tag, p.where(), m, -1)
}

// faultNow: the current path always faults here.
func (p *Path) faultNow(tag string) {
	if !p.replaying() {
		ok, m := p.feasible(p.ts.True)
		if ok {
			p.recordViolation("fault", tag, m)
		}
	}
	p.abort(abStop, "fault: %s", tag)
}

// faultIf: symbolic fault condition.
func (p *Path) faultIf(c *Term, tag string) {
	c = p.simp(c)
	if c.IsFalse() {
		return
	}
	if c.IsTrue() {
		p.faultNow(tag)
	}
	p.check(p.ts.Not(c), "fault", tag)
}

func (p *Path) nondet(w uint8) *Term {
	name := fmt.Sprintf("v%d_%d", len(p.vars), w)
	v := p.ts.Var(name, w)
	p.vars = append(p.vars, v)
	return v
}

func (p *Path) instrWhere(ins ssa.Instruction) string {
	saved := p.curInstr
	p.curInstr = ins
	w := p.where()
	p.curInstr = saved
	return w
}

// flushPending decides all deferred checks of this path with one query (more only if violated).
func (p *Path) flushPending() {
	if len(p.pending) == 0 {
		return
	}
	ts := p.ts
	// cumulative conjunctions of the PC
	maxN := 0
	for _, pd := range p.pending {
		if pd.n > maxN {
			maxN = pd.n
		}
	}
	pre := make([]*Term, maxN+1)
	pre[0] = ts.True
	for i := 1; i <= maxN; i++ {
		pre[i] = ts.And(pre[i-1], p.pc[i-1])
	}
	items := make([]*Term, len(p.pending))
	for i, pd := range p.pending {
		items[i] = ts.And(pre[pd.n], ts.Not(pd.cond))
	}
	active := make([]bool, len(items))
	for i := range active {
		active[i] = !items[i].IsFalse()
	}
	// a fresh scope without the path condition
	if p.inScope {
		p.solver.EndPath()
	}
	p.solver.BeginPath()
	p.inScope = true
	p.asserted = len(p.pc) // nothing more may be flushed into this scope
	for _, v := range p.vars {
		p.solver.ensure(v)
	}
	p.declVars = len(p.vars)
	for round := 0; round < 4; round++ {
		f := ts.False
		for i, it := range items {
			if active[i] {
				f = ts.Or(f, it)
			}
		}
		if f.IsFalse() {
			return
		}
		tq := time.Now()
		res, m, msg := p.solver.CheckWith(f, p.vars)
		p.solverWall += time.Since(tq)
		switch res {
		case RUnsat:
			return
		case RSat:
			ctx := &evalCtx{m: m, memo: map[*Term]uint64{}}
			found := false
			for i, it := range items {
				if active[i] && ctx.eval(it) == 1 {
					pd := p.pending[i]
					p.recordViolationAt(pd.kind, pd.tag, p.instrWhere(pd.instr), m, pd.nvars)
					// drop every pending check with the same tag at the same place
					for j := range items {
						if p.pending[j].tag == pd.tag && p.pending[j].instr == pd.instr {
							active[j] = false
						}
					}
					found = true
					break
				}
			}
			if !found {
				p.abort(abInconclusive, "deferred check: model satisfies no disjunct")
			}
		case RUnknown:
			// the disjunction over all deferred checks timed out: decide the checks one by one (each with its own
			// time limit); only a check that is still undecided on its own makes the path inconclusive
			for i, it := range items {
				if !active[i] {
					continue
				}
				tq := time.Now()
				r1, m1, msg1 := p.solver.CheckWith(it, p.vars)
				p.solverWall += time.Since(tq)
				switch r1 {
				case RUnsat:
					active[i] = false
				case RSat:
					pd := p.pending[i]
					p.recordViolationAt(pd.kind, pd.tag, p.instrWhere(pd.instr), m1, pd.nvars)
					for j := range items {
						if p.pending[j].tag == pd.tag && p.pending[j].instr == pd.instr {
							active[j] = false
						}
					}
				default:
					p.sawUnknown = true
					p.abort(abInconclusive, "solver returned unknown (%s / %s) on a deferred assertion: %s", msg, msg1, p.pending[i].tag)
				}
			}
			return
		default:
			p.abort(abInconclusive, "solver error on the deferred assertions: %s", msg)
		}
	}
}
