package main

// Engine: loads /repo's current working tree (plus harness overlay) into go/ssa, owns the worker pool.

import (
	"fmt"
	"go/types"
	"os"
	"os/exec"
	"path/filepath"
	"sort"
	"strings"
	"sync"
	"time"

	"golang.org/x/tools/go/packages"
	"golang.org/x/tools/go/ssa"
	"golang.org/x/tools/go/ssa/ssautil"
)

const (
	ownerNone   = 0
	ownerGlobal = -1
)

type methodEnt struct {
	t    types.Type
	name string
	fn   *ssa.Function
}

type Engine struct {
	prog     *ssa.Program
	pkg      *ssa.Package
	fnInfos  sync.Map
	mu       sync.Mutex
	methods  []methodEnt
	wordBits int
	sizes    types.Sizes
	asm      map[string]*AsmFunc
	suppress func(kind, tag string) bool
	goarch   string
	loadTime time.Duration
	overlay  map[string][]byte
	repoDir  string

	words       map[int][]string
	redirect    map[string]*ssa.Function // real primitive -> proven-equivalent scalar specification
	sumNotes    []string
	lemmaFailed []string

	encMu    sync.Mutex
	encoded  map[string]bool // functions executed symbolically (for evidence)
	solverKd string
	timeout  int
}

var repoDir = "/repo"
var verifDir = "/verif"

// outDir: where evidence, replays and scratch build output go (VERIF_OUT redirects them for runs against
// scratch copies of the repository, so that the registered evidence is not overwritten).
var outDir = "/verif"

func init() {
	if d := os.Getenv("VERIF_REPO"); d != "" {
		repoDir = d
	}
	if d := os.Getenv("VERIF_DIR"); d != "" {
		verifDir = d
		outDir = d
	}
	if d := os.Getenv("VERIF_OUT"); d != "" {
		outDir = d
	}
}

// harnessOverlay maps /verif/harness/*.go to virtual files inside the repo directory.
func harnessOverlay() (map[string][]byte, error) {
	ov := map[string][]byte{}
	files, err := filepath.Glob(filepath.Join(verifDir, "harness", "*.go"))
	if err != nil {
		return nil, err
	}
	for _, f := range files {
		b, err := os.ReadFile(f)
		if err != nil {
			return nil, err
		}
		ov[filepath.Join(repoDir, "zz_verif_"+filepath.Base(f))] = b
	}
	return ov, nil
}

// collateOverlay returns x/text's collate.go with a hook in Collator.Key, so that native replays can
// substitute the collation table a symbolic path chose (DESIGN §2.4). go-art's files are untouched.
func collateOverlay() (string, []byte, error) {
	lc := exec.Command("go", "list", "-m", "-f", "{{.Dir}}", "golang.org/x/text")
	lc.Dir = repoDir
	lc.Env = append(os.Environ(), "GOFLAGS=-mod=mod", "GOPROXY=off")
	out, err := lc.Output()
	if err != nil {
		// fall back to the version pinned in go.mod
		out = []byte(filepath.Join(os.Getenv("HOME"), "go/pkg/mod/golang.org/x/text@v0.23.0"))
	}
	dir := strings.TrimSpace(string(out))
	path := filepath.Join(dir, "collate", "collate.go")
	src, err := os.ReadFile(path)
	if err != nil {
		return "", nil, err
	}
	const anchor = "func (c *Collator) Key(buf *Buffer, str []byte) []byte {\n\t// See https://www.unicode.org/reports/tr10/#Main_Algorithm for more details.\n\tbuf.init()\n"
	s := string(src)
	if !strings.Contains(s, anchor) {
		return "", nil, fmt.Errorf("x/text collate.go: Key has an unexpected shape, cannot install the replay hook")
	}
	s = strings.Replace(s, anchor, anchor+"\tif VerifKeyHook != nil {\n\t\tif out, ok := VerifKeyHook(str); ok {\n\t\t\tc.getColElems(str) // the real, stateful pass over the input (its result is replaced by the table's key)\n\t\t\tkn := len(buf.key)\n\t\t\tbuf.key = append(buf.key, out...)\n\t\t\treturn buf.key[kn:]\n\t\t}\n\t}\n", 1)
	s += "\n// VerifKeyHook is installed by the verification overlay only.\nvar VerifKeyHook func(str []byte) ([]byte, bool)\n"
	return path, []byte(s), nil
}

func LoadEngine(goarch string) (*Engine, error) {
	t0 := time.Now()
	ov, err := harnessOverlay()
	if err != nil {
		return nil, err
	}
	cpath, csrc, err := collateOverlay()
	if err != nil {
		return nil, err
	}
	ov[cpath] = csrc
	env := append(os.Environ(), "GOFLAGS=-mod=mod", "GOPROXY=off")
	wordBits := 64
	if goarch != "" {
		env = append(env, "GOARCH="+goarch, "CGO_ENABLED=0")
		if goarch == "386" || goarch == "arm" {
			wordBits = 32
		}
	} else {
		goarch = "amd64"
	}
	cfg := &packages.Config{
		Mode:       packages.LoadAllSyntax,
		Dir:        repoDir,
		BuildFlags: []string{"-tags=verif"},
		Overlay:    ov,
		Env:        env,
	}
	pkgs, err := packages.Load(cfg, ".")
	if err != nil {
		return nil, err
	}
	var errs []string
	packages.Visit(pkgs, nil, func(p *packages.Package) {
		for _, e := range p.Errors {
			errs = append(errs, e.Error())
		}
	})
	if len(errs) > 0 {
		return nil, fmt.Errorf("load errors:\n%s", strings.Join(errs, "\n"))
	}
	prog, spkgs := ssautil.AllPackages(pkgs, ssa.InstantiateGenerics)
	prog.Build()
	e := &Engine{prog: prog, pkg: spkgs[0], wordBits: wordBits, goarch: goarch, overlay: ov, repoDir: repoDir, encoded: map[string]bool{}}
	e.sizes = types.SizesFor("gc", goarch)
	if e.sizes == nil {
		return nil, fmt.Errorf("no sizes for %s", goarch)
	}
	e.asm = map[string]*AsmFunc{}
	if goarch == "amd64" {
		afs, err := ParseAsmFile(filepath.Join(repoDir, "node16_amd64.s"))
		if err != nil {
			return nil, fmt.Errorf("asm front end: %v", err)
		}
		for _, af := range afs {
			e.asm[af.Name] = af
		}
	}
	e.solverKd = "z3-new"
	e.timeout = 180000
	e.loadTime = time.Since(t0)
	return e, nil
}

func (e *Engine) sizeof(t types.Type) int64 { return e.sizes.Sizeof(t) }

func (e *Engine) fieldOffset(st *types.Struct, i int) int64 {
	fields := make([]*types.Var, st.NumFields())
	for j := range fields {
		fields[j] = st.Field(j)
	}
	return e.sizes.Offsetsof(fields)[i]
}

func (e *Engine) isPlainScalar(t types.Type) bool {
	b, ok := t.Underlying().(*types.Basic)
	if !ok {
		return false
	}
	return b.Info()&(types.IsInteger|types.IsFloat|types.IsBoolean) != 0
}

type layoutSlot struct {
	off  int64
	size int64
	kind byte // 's' scalar, 'p' pointer, 'o' other pointer-carrying (slice/string/iface/func)
}

func (e *Engine) flatten(t types.Type, base int64, out *[]layoutSlot) {
	switch u := t.Underlying().(type) {
	case *types.Struct:
		for i := 0; i < u.NumFields(); i++ {
			e.flatten(u.Field(i).Type(), base+e.fieldOffset(u, i), out)
		}
	case *types.Array:
		es := e.sizeof(u.Elem())
		for i := int64(0); i < u.Len(); i++ {
			e.flatten(u.Elem(), base+i*es, out)
		}
	case *types.Pointer:
		*out = append(*out, layoutSlot{base, e.sizeof(t), 'p'})
	case *types.Basic:
		k := byte('s')
		if u.Kind() == types.UnsafePointer {
			k = 'p'
		} else if u.Info()&types.IsString != 0 {
			k = 'S'
		}
		*out = append(*out, layoutSlot{base, e.sizeof(t), k})
	case *types.Slice:
		*out = append(*out, layoutSlot{base, e.sizeof(t), 'L'})
	case *types.Interface:
		*out = append(*out, layoutSlot{base, e.sizeof(t), 'I'})
	default:
		*out = append(*out, layoutSlot{base, e.sizeof(t), 'o'})
	}
}

// layoutCompatible: same size, same slots (offset, size, pointer-ness).
func (e *Engine) layoutCompatible(a, b types.Type) bool {
	if e.sizeof(a) != e.sizeof(b) {
		return false
	}
	var fa, fb []layoutSlot
	e.flatten(a, 0, &fa)
	e.flatten(b, 0, &fb)
	if len(fa) != len(fb) {
		return false
	}
	for i := range fa {
		if fa[i] != fb[i] {
			return false
		}
	}
	// struct shapes must also match so that field indices mean the same thing
	return sameShape(a, b)
}

func sameShape(a, b types.Type) bool {
	switch x := a.Underlying().(type) {
	case *types.Struct:
		y, ok := b.Underlying().(*types.Struct)
		if !ok || x.NumFields() != y.NumFields() {
			return false
		}
		for i := 0; i < x.NumFields(); i++ {
			if !sameShape(x.Field(i).Type(), y.Field(i).Type()) {
				return false
			}
		}
		return true
	case *types.Array:
		y, ok := b.Underlying().(*types.Array)
		return ok && x.Len() == y.Len() && sameShape(x.Elem(), y.Elem())
	}
	switch b.Underlying().(type) {
	case *types.Struct, *types.Array:
		return false
	}
	return true
}

func (e *Engine) noteEncoded(fn *ssa.Function) {
	name := fn.String()
	e.encMu.Lock()
	e.encoded[name] = true
	e.encMu.Unlock()
}

func (e *Engine) encodedList() []string {
	e.encMu.Lock()
	defer e.encMu.Unlock()
	var out []string
	for k := range e.encoded {
		out = append(out, k)
	}
	sort.Strings(out)
	return out
}

// summaryPairs: primitives that tree-level scenarios replace by their scalar specification once the
// equivalence has been discharged on the current working tree (for every input, C10a).
var summaryPairs = []struct{ real, spec, harness string }{
	{"searchNode4", "specSearchNode4", "hEqSearch4"},
	{"insertPosNode4", "specInsertPosNode4", "hEqInsertPos4"},
	{"searchNode16", "specSearchNode16", "hEqSearch16"},
	{"insertPosNode16", "specInsertPosNode16", "hEqInsertPos16"},
}

// EstablishSummaries proves real == spec for all inputs and enables the substitution for the
// primitives where the proof succeeds; the others keep being executed as they are.
func (e *Engine) EstablishSummaries(workers int) []*Scenario {
	var scns []*Scenario
	for _, sp := range summaryPairs {
		scns = append(scns, &Scenario{Harness: sp.harness, Params: []int{255}, Label: "summary:" + sp.real, NoSummaries: true})
	}
	lem := []*Scenario{{Harness: "hFpLemma32", Label: "lemma:float32 compare encoding", NoSummaries: true}, {Harness: "hFpLemma64", Label: "lemma:float64 compare encoding", NoSummaries: true},
		{Harness: "hBigEndianLemma", Label: "lemma:encoding/binary.BigEndian summaries", NoSummaries: true},
		{Harness: "hFpWidenLemma", Label: "lemma:float32->float64 widening", NoSummaries: true}}
	scns = append(scns, lem...)
	ex := NewExplorer(e, workers)
	ex.sampleMax = 0
	if err := ex.Run(scns); err != nil {
		e.sumNotes = append(e.sumNotes, "summaries disabled: "+err.Error())
		return scns
	}
	red := map[string]*ssa.Function{}
	for i, sp := range summaryPairs {
		s := scns[i]
		if s.Finished > 0 && s.Inconclusive == 0 && len(s.Violations) == 0 && s.Stopped == 0 {
			if fn := e.pkg.Func(sp.spec); fn != nil {
				red[sp.real] = fn
				e.sumNotes = append(e.sumNotes, fmt.Sprintf("%s == %s for all inputs (%d paths, unsat): summary enabled", sp.real, sp.spec, s.Finished))
				continue
			}
		}
		e.sumNotes = append(e.sumNotes, fmt.Sprintf("%s: equivalence with %s NOT established (violations=%d inconclusive=%d): real code is executed", sp.real, sp.spec, len(s.Violations), s.Inconclusive))
	}
	e.redirect = red
	for _, s := range lem {
		if s.Finished > 0 && s.Inconclusive == 0 && len(s.Violations) == 0 {
			e.sumNotes = append(e.sumNotes, s.Label+": holds for all inputs (unsat)")
		} else {
			e.lemmaFailed = append(e.lemmaFailed, s.Label)
		}
	}
	return scns
}

var wordFiles = []string{"testdata/words.txt", "testdata/uuid.txt", "testdata/hsk.txt"}

func (e *Engine) word(list, i int) (string, error) {
	e.mu.Lock()
	defer e.mu.Unlock()
	if e.words == nil {
		e.words = map[int][]string{}
	}
	if e.words[list] == nil {
		b, err := os.ReadFile(filepath.Join(e.repoDir, wordFiles[list]))
		if err != nil {
			return "", err
		}
		e.words[list] = strings.Split(strings.TrimRight(string(b), "\n"), "\n")
	}
	if i < 0 || i >= len(e.words[list]) {
		return "", fmt.Errorf("line %d out of range", i)
	}
	return e.words[list][i], nil
}

// selfTestScenarios: all-concrete runs over the repository's own test inputs (translator validation).
func selfTestScenarios() []*Scenario {
	return []*Scenario{
		{Harness: "hTraceWords", Params: []int{0, 1000, 120, 37}, Label: "selftest words.txt", MaxSteps: 200_000_000, SelfTest: true},
		{Harness: "hTraceWords", Params: []int{1, 0, 80, 11}, Label: "selftest uuid.txt", MaxSteps: 200_000_000, SelfTest: true},
		{Harness: "hTraceWords", Params: []int{2, 0, 100, 3}, Label: "selftest hsk.txt", MaxSteps: 200_000_000, SelfTest: true},
	}
}
