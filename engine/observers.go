package main

// Heap observers: snapshots (C15), retained size (C17), actor footprints (C16), pointer discipline (C18).

import (
	"fmt"
	"go/types"
	"strings"
)

type snapshot struct {
	objs  map[*Object]bool
	cells map[*Cell]Value
	order []*Cell
}

type access struct {
	readers map[int]bool
	writers map[int]bool
}

type Observers struct {
	events    []string // unsafe-pointer discipline events
	snaps     []*snapshot
	poolOps   int
	actor     int // 0 = none
	acc       map[*Cell]*access
	conflicts []string
	globalWr  []string
	watermark int // objects with id < watermark pre-exist the current read-only window
	readerWin bool
	readerWr  []string
	casts     map[string]bool
}

func newObservers() *Observers {
	return &Observers{acc: map[*Cell]*access{}, casts: map[string]bool{}}
}

func (p *Path) noteRead(c *Cell) {
	o := p.obs
	if o == nil || o.actor == 0 {
		return
	}
	a := o.acc[c]
	if a == nil {
		a = &access{readers: map[int]bool{}, writers: map[int]bool{}}
		o.acc[c] = a
	}
	if !a.readers[o.actor] {
		a.readers[o.actor] = true
		for w := range a.writers {
			if w != o.actor && len(o.conflicts) < 10 {
				o.conflicts = append(o.conflicts, fmt.Sprintf("%s: read by actor %d of a location written by actor %d (object %s) at %s", cellName(c), o.actor, w, c.obj.site, p.where()))
			}
		}
	}
}

func (p *Path) noteWrite(c *Cell) {
	o := p.obs
	if o == nil {
		return
	}
	if o.readerWin && c.obj != nil && c.obj.id < o.watermark && len(o.readerWr) < 10 {
		o.readerWr = append(o.readerWr, fmt.Sprintf("store to pre-existing %s (object %s) at %s", cellName(c), c.obj.site, p.where()))
	}
	if c.obj != nil && c.obj.owner == ownerGlobal && p.curOwner != ownerGlobal && len(o.globalWr) < 10 {
		o.globalWr = append(o.globalWr, fmt.Sprintf("store to package-level state %s at %s", c.obj.site, p.where()))
	}
	if o.actor == 0 {
		return
	}
	a := o.acc[c]
	if a == nil {
		a = &access{readers: map[int]bool{}, writers: map[int]bool{}}
		o.acc[c] = a
	}
	if !a.writers[o.actor] {
		a.writers[o.actor] = true
		for w := range a.writers {
			if w != o.actor && len(o.conflicts) < 10 {
				o.conflicts = append(o.conflicts, fmt.Sprintf("%s: written by actors %d and %d (object %s) at %s", cellName(c), w, o.actor, c.obj.site, p.where()))
			}
		}
		for r := range a.readers {
			if r != o.actor && len(o.conflicts) < 10 {
				o.conflicts = append(o.conflicts, fmt.Sprintf("%s: written by actor %d after a read by actor %d (object %s) at %s", cellName(c), o.actor, r, c.obj.site, p.where()))
			}
		}
	}
}

func cellName(c *Cell) string {
	var parts []string
	for x := c; x.parent != nil; x = x.parent {
		if st, ok := x.parent.typ.Underlying().(*types.Struct); ok {
			parts = append([]string{"." + st.Field(x.idx).Name()}, parts...)
		} else {
			parts = append([]string{fmt.Sprintf("[%d]", x.idx)}, parts...)
		}
	}
	root := c
	for root.parent != nil {
		root = root.parent
	}
	return fmt.Sprintf("%v%s", root.typ, strings.Join(parts, ""))
}

func (p *Path) noteCast(c *Cell, t types.Type, ok bool) {
	if p.obs != nil {
		p.obs.casts[fmt.Sprintf("%v as %v compatible=%v", c.typ, t, ok)] = true
	}
}

func (p *Path) disciplineEvent(msg string) {
	if p.obs != nil {
		p.obs.events = append(p.obs.events, msg+" at "+p.where())
	}
}

func (p *Path) obsPool(kind string, c *Cell) {
	if p.obs != nil {
		p.obs.poolOps++
	}
}

// obsPoolRelease: ownership of the object leaves the releasing actor (happens-before through the pool).
func (p *Path) obsPoolRelease(v Value) {
	o := p.obs
	if o == nil {
		return
	}
	if iv, ok := v.(IfaceV); ok {
		if pt, ok := iv.v.(Ptr); ok && pt.c != nil {
			p.forgetObject(pt.c.obj)
		}
	}
}

func (p *Path) obsPoolTransfer(v Value) {}

func (p *Path) forgetObject(obj *Object) {
	var rec func(c *Cell)
	rec = func(c *Cell) {
		delete(p.obs.acc, c)
		for _, k := range c.kids {
			rec(k)
		}
	}
	rec(obj.root)
}

// reachable collects the objects reachable from v through pointers, slices, strings, interfaces, closures.
func (p *Path) reachable(v Value, seen map[*Object]bool, order *[]*Object) {
	var visitCell func(c *Cell)
	var visitVal func(v Value)
	visitObj := func(o *Object) {
		if o == nil || seen[o] {
			return
		}
		seen[o] = true
		*order = append(*order, o)
		visitCell(o.root)
	}
	visitCell = func(c *Cell) {
		if c.kids != nil {
			for _, k := range c.kids {
				visitCell(k)
			}
			return
		}
		visitVal(c.val)
	}
	visitVal = func(v Value) {
		switch x := v.(type) {
		case Ptr:
			if x.c != nil {
				visitObj(x.c.obj)
			}
		case IdxPtr:
			visitObj(x.arr.obj)
		case SliceV:
			if x.arr != nil {
				visitObj(x.arr.obj)
			}
		case StrV:
			if x.arr != nil {
				visitObj(x.arr.obj)
			}
		case AggV:
			for _, e := range x.elems {
				visitVal(e)
			}
		case IfaceV:
			if x.typ != nil {
				visitVal(x.v)
			}
		case FuncV:
			for _, e := range x.env {
				visitVal(e)
			}
		case TupleV:
			for _, e := range x {
				visitVal(e)
			}
		}
	}
	visitVal(v)
}

func (p *Path) takeSnapshot(v Value) *snapshot {
	s := &snapshot{objs: map[*Object]bool{}, cells: map[*Cell]Value{}}
	var order []*Object
	p.reachable(v, s.objs, &order)
	for _, o := range order {
		var rec func(c *Cell)
		rec = func(c *Cell) {
			if c.kids != nil {
				for _, k := range c.kids {
					rec(k)
				}
				return
			}
			s.cells[c] = c.val
			s.order = append(s.order, c)
		}
		rec(o.root)
	}
	return s
}

func isLeafValueCell(c *Cell) bool {
	if c.parent == nil {
		return false
	}
	// walk up to the field directly under a *LeafNode struct
	x := c
	for x.parent != nil {
		if st, ok := x.parent.typ.Underlying().(*types.Struct); ok {
			if n, ok := x.parent.typ.(*types.Named); ok && strings.HasSuffix(n.Obj().Name(), "LeafNode") {
				return st.Field(x.idx).Name() == "value"
			}
		}
		x = x.parent
	}
	return false
}

// unchanged: term stating that everything reachable from v equals the snapshot (mode 1: leaf values may differ).
func (p *Path) unchanged(s *snapshot, v Value, mode int) (*Term, string) {
	now := map[*Object]bool{}
	var order []*Object
	p.reachable(v, now, &order)
	if len(now) != len(s.objs) {
		return p.ts.False, fmt.Sprintf("set of reachable objects changed (%d -> %d)", len(s.objs), len(now))
	}
	for o := range now {
		if !s.objs[o] {
			return p.ts.False, "a new object became reachable: " + o.site
		}
	}
	res := p.ts.True
	for _, c := range s.order {
		old := s.cells[c]
		if mode == 1 && isLeafValueCell(c) {
			continue
		}
		switch ov := old.(type) {
		case *Term:
			nv, ok := c.val.(*Term)
			if !ok {
				return p.ts.False, "cell kind changed at " + cellName(c)
			}
			if ov != nv {
				res = p.ts.And(res, p.ts.Eq(ov, nv))
			}
		default:
			if !valuesIdentical(old, c.val) {
				return p.ts.False, "pointer-carrying cell changed at " + cellName(c)
			}
		}
	}
	return res, ""
}

func (p *Path) retainedBytes(v Value) int64 {
	seen := map[*Object]bool{}
	var order []*Object
	p.reachable(v, seen, &order)
	var n int64
	for _, o := range order {
		n += o.size
		// used length of every slice kept in the object: an append-only buffer that is never reset grows
		// here long before its capacity (and with it the allocation) does
		var rec func(c *Cell)
		rec = func(c *Cell) {
			if c.kids != nil {
				for _, k := range c.kids {
					rec(k)
				}
				return
			}
			if s, ok := c.val.(SliceV); ok && s.arr != nil {
				if at, ok := s.arr.typ.Underlying().(*types.Array); ok {
					n += int64(s.len) * p.eng.sizeof(at.Elem())
				}
			}
		}
		rec(o.root)
	}
	return n
}

func (p *Path) obsPrimitive(name string, args []Value) (Value, bool) {
	o := p.obs
	switch name {
	case "vpSnapshot":
		o.snaps = append(o.snaps, p.takeSnapshot(args[0]))
		return p.word(uint64(len(o.snaps) - 1)), true
	case "vpUnchanged", "vpUnchangedButValues":
		i := p.concreteInt(args[0], "snapshot id")
		mode := 0
		if name == "vpUnchangedButValues" {
			mode = 1
		}
		t, why := p.unchanged(o.snaps[i], args[1], mode)
		if why != "" {
			p.traceNote("snapshot: " + why)
		}
		return t, true
	case "vpRetainedTree":
		return p.ts.Const(64, uint64(p.retainedBytes(args[0]))), true
	case "vpReachableLeaves":
		// leaf objects reachable from the index through ANY pointer slot, occupied or not
		seen := map[*Object]bool{}
		var order []*Object
		p.reachable(args[0], seen, &order)
		n := 0
		for _, ob := range order {
			if nm, ok := ob.root.typ.(*types.Named); ok && strings.HasSuffix(nm.Obj().Name(), "LeafNode") {
				n++
			}
		}
		return p.ts.Const(64, uint64(n)), true
	case "vpReps":
		return args[0], true
	case "vpNoGrowth":
		return p.ts.Ule(args[1].(*Term), p.ts.Bin(OAdd, args[0].(*Term), args[2].(*Term))), true
	case "vpRetained":
		return p.ts.Const(64, uint64(p.retainedBytes(args[0]))), true
	case "vpPoolOps":
		return p.ts.Const(64, uint64(o.poolOps)), true
	case "vpActor":
		o.actor = p.concreteInt(args[0], "actor")
		return nil, true
	case "vpConflicts":
		return p.ts.Const(64, uint64(len(o.conflicts)+len(o.globalWr))), true
	case "vpReaderWindow":
		on := p.concreteInt(args[0], "reader window")
		o.readerWin = on != 0
		if o.readerWin {
			o.watermark = p.nextObj
			o.readerWr = nil
		}
		return nil, true
	case "vpReaderWrites":
		return p.ts.Const(64, uint64(len(o.readerWr))), true
	case "vpDisciplineEvents":
		return p.ts.Const(64, uint64(len(o.events))), true
	case "vpForget":
		// forget access history of everything reachable (a happens-before edge supplied by the harness)
		seen := map[*Object]bool{}
		var order []*Object
		p.reachable(args[0], seen, &order)
		for _, ob := range order {
			p.forgetObject(ob)
		}
		return nil, true
	}
	return nil, false
}

func (p *Path) traceNote(s string) {
	if len(p.notes) < 20 {
		p.notes = append(p.notes, s)
	}
}
