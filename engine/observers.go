package main

// Heap observers used by C13/C15/C16/C17/C18 (extended later).

import "go/types"

type Observers struct {
	events []string
}

func newObservers() *Observers { return &Observers{} }

func (p *Path) noteRead(c *Cell)  {}
func (p *Path) noteWrite(c *Cell) {}

func (p *Path) noteCast(c *Cell, t types.Type, ok bool) {}

func (p *Path) disciplineEvent(msg string) {
	if p.obs != nil {
		p.obs.events = append(p.obs.events, msg)
	}
}

func (p *Path) obsPool(kind string, c *Cell) {}
func (p *Path) obsPoolTransfer(v Value)      {}
func (p *Path) obsPoolRelease(v Value)       {}

func (p *Path) obsPrimitive(name string, args []Value) (Value, bool) { return nil, false }
