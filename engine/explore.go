package main

// Work-list exploration: scenarios × decision prefixes over a pool of workers, one solver each.

import (
	"fmt"
	"os"
	"runtime/debug"
	"sort"
	"sync"
	"sync/atomic"
	"time"

	"golang.org/x/tools/go/ssa"
)

type TraceVal struct {
	Tag string `json:"tag"`
	Val uint64 `json:"val"`
}

type PathSample struct {
	Scn       *Scenario   `json:"-"`
	Decisions []int64     `json:"decisions"`
	Tape      []TapeEntry `json:"tape"`
	Traces    []TraceVal  `json:"traces"`
}

type Scenario struct {
	ID           int
	Harness      string
	Params       []int
	Label        string
	MaxSteps     int
	Known        string // known-finding class this scenario is expected to exhibit ("" = none)
	MayBeVacuous bool
	SelfTest     bool
	NoSummaries  bool // execute the real SWAR/SIMD primitives even when summaries are enabled

	mu           sync.Mutex
	Paths        int
	Finished     int
	Killed       int
	Stopped      int
	Inconclusive int
	IncMsgs      []string
	Violations   []Violation
	Steps        int64
	ApiCalls     int64
	Asserts      int64
	Samples      []PathSample
	WallNs       int64
	SolverNs     int64
	seen         int
}

type Explorer struct {
	eng        *Engine
	workers    int
	sampleMax  int
	seed       int64
	deadline   time.Time
	maxPaths   int64
	queue      []WorkItem
	qmu        sync.Mutex
	qcond      *sync.Cond
	pending    int64
	totalPaths int64
	timedOut   bool
	stopAll    int32
	wantCov    bool
	covMu      sync.Mutex
	cov        map[string]bool // "func#block" covered by finished or stopped paths
}

func NewExplorer(eng *Engine, workers int) *Explorer {
	ex := &Explorer{eng: eng, workers: workers, sampleMax: 3}
	ex.qcond = sync.NewCond(&ex.qmu)
	return ex
}

func (ex *Explorer) push(items ...WorkItem) {
	ex.qmu.Lock()
	ex.queue = append(ex.queue, items...)
	atomic.AddInt64(&ex.pending, int64(len(items)))
	ex.qmu.Unlock()
	ex.qcond.Broadcast()
}

func (ex *Explorer) pop() (WorkItem, bool) {
	ex.qmu.Lock()
	defer ex.qmu.Unlock()
	for len(ex.queue) == 0 {
		if atomic.LoadInt64(&ex.pending) == 0 {
			return WorkItem{}, false
		}
		ex.qcond.Wait()
	}
	it := ex.queue[len(ex.queue)-1]
	ex.queue = ex.queue[:len(ex.queue)-1]
	return it, true
}

func (ex *Explorer) done() {
	if atomic.AddInt64(&ex.pending, -1) == 0 {
		ex.qcond.Broadcast()
	}
}

func (ex *Explorer) Run(scns []*Scenario) error {
	for _, s := range scns {
		ex.push(WorkItem{scn: s})
	}
	var wg sync.WaitGroup
	var firstErr error
	var emu sync.Mutex
	for w := 0; w < ex.workers; w++ {
		wg.Add(1)
		go func(w int) {
			defer wg.Done()
			solver, err := NewSolver(ex.eng.solverKd, ex.eng.timeout)
			if err != nil {
				emu.Lock()
				firstErr = err
				emu.Unlock()
				// drain so that others can finish
				for {
					if _, ok := ex.pop(); !ok {
						return
					}
					ex.done()
				}
			}
			defer solver.Close()
			for {
				it, ok := ex.pop()
				if !ok {
					return
				}
				if atomic.LoadInt32(&ex.stopAll) != 0 || (!ex.deadline.IsZero() && time.Now().After(ex.deadline)) || (ex.maxPaths > 0 && atomic.LoadInt64(&ex.totalPaths) > ex.maxPaths) {
					ex.timedOut = true
					ex.done()
					continue
				}
				ex.runPath(solver, it)
				if solver.dead {
					// restart a broken solver
					solver.Close()
					solver, err = NewSolver(ex.eng.solverKd, ex.eng.timeout)
					if err != nil {
						emu.Lock()
						firstErr = err
						emu.Unlock()
						atomic.StoreInt32(&ex.stopAll, 1)
					}
				}
				ex.done()
			}
		}(w)
	}
	wg.Wait()
	return firstErr
}

func (ex *Explorer) runPath(solver *Solver, it WorkItem) {
	scn := it.scn
	atomic.AddInt64(&ex.totalPaths, 1)
	tPath := time.Now()
	var pathRef *Path
	defer func() {
		if os.Getenv("VERIF_TIMING") != "" {
			fmt.Fprintf(os.Stderr, "path %v took %v\n", it.decisions, time.Since(tPath))
			fmt.Fprintf(os.Stderr, "   solverWall %v steps %d\n", pathRef.solverWall, pathRef.steps)
		}
	}()
	p := &Path{
		eng: ex.eng, ts: NewTermStore(), solver: solver, scn: scn,
		decisions: it.decisions,
		known:     map[*Term]uint64{}, substMemo: map[*Term]*Term{},
		globals: map[*ssa.Global]*Cell{}, pools: map[*Cell][]Value{}, strCache: map[string]*Cell{},
		maxSteps: scn.MaxSteps, collTable: map[string][]*Term{},
	}
	if p.maxSteps == 0 {
		p.maxSteps = 20_000_000
	}
	pathRef = p
	p.addModel(it.model)
	if ex.wantCov {
		p.cov = map[*ssa.BasicBlock]bool{}
	}
	p.obs = newObservers()
	outcome := "finished"
	var msg string
	func() {
		defer func() {
			if r := recover(); r != nil {
				if pa, ok := r.(pathAbort); ok {
					msg = pa.msg
					switch pa.kind {
					case abKilled:
						outcome = "killed"
					case abStop:
						outcome = "stopped"
					default:
						outcome = "inconclusive"
					}
					return
				}
				outcome = "inconclusive"
				msg = fmt.Sprintf("engine panic: %v at %s\n%s", r, p.where(), debug.Stack())
			}
		}()
		p.runHarness()
	}()
	var sample *PathSample
	if outcome == "finished" {
		scn.mu.Lock()
		scn.seen++
		take := len(scn.Samples) < ex.sampleMax
		scn.mu.Unlock()
		if take {
			func() {
				defer func() {
					if r := recover(); r != nil {
						if _, ok := r.(pathAbort); !ok {
							panic(r)
						}
					}
				}()
				ok, m := p.feasible(p.ts.True)
				if ok {
					fm := p.fullModel(m)
					s := PathSample{Scn: scn, Decisions: p.taken}
					for _, v := range p.vars {
						s.Tape = append(s.Tape, TapeEntry{W: v.w, V: fm[v.name]})
					}
					for _, tr := range p.traces {
						s.Traces = append(s.Traces, TraceVal{tr.tag, Eval(tr.val, fm)})
					}
					sample = &s
				}
			}()
		}
	}
	if outcome != "inconclusive" {
		func() {
			defer func() {
				if r := recover(); r != nil {
					if pa, ok := r.(pathAbort); ok {
						outcome = "inconclusive"
						msg = pa.msg
						return
					}
					panic(r)
				}
			}()
			p.flushPending()
		}()
	}
	if len(p.violations) > 0 {
		sample = nil // a path with a counterexample is confirmed through that counterexample, not sampled as passing
	}
	if p.inScope {
		solver.EndPath()
		if err := solver.flush(); err != nil {
			solver.dead = true
		}
	}
	if ex.wantCov && (outcome == "finished" || outcome == "stopped") {
		ex.covMu.Lock()
		if ex.cov == nil {
			ex.cov = map[string]bool{}
		}
		for b := range p.cov {
			ex.cov[fmt.Sprintf("%s#%d", b.Parent().String(), b.Index)] = true
		}
		ex.covMu.Unlock()
	}
	for fn := range p.fnsSeen {
		ex.eng.noteEncoded(fn)
	}
	scn.mu.Lock()
	scn.WallNs += int64(time.Since(tPath))
	scn.SolverNs += int64(p.solverWall)
	scn.Paths++
	scn.Steps += int64(p.steps)
	scn.ApiCalls += int64(p.apiCalls)
	scn.Asserts += int64(p.asserts)
	switch outcome {
	case "finished":
		scn.Finished++
		if sample != nil && len(scn.Samples) < ex.sampleMax {
			scn.Samples = append(scn.Samples, *sample)
		}
	case "killed":
		scn.Killed++
	case "stopped":
		scn.Stopped++
	default:
		scn.Inconclusive++
		if len(scn.IncMsgs) < 5 {
			scn.IncMsgs = append(scn.IncMsgs, msg)
		}
	}
	for _, v := range p.violations {
		v.Params = scn.Params
		if len(scn.Violations) < 50 {
			scn.Violations = append(scn.Violations, v)
		}
	}
	scn.mu.Unlock()
	if len(p.newWork) > 0 {
		ex.push(p.newWork...)
	}
	if os.Getenv("VERIF_DEBUG") != "" && outcome != "finished" {
		fmt.Fprintf(os.Stderr, "[path %s %v] %s: %s\n", scn.Label, it.decisions, outcome, msg)
	}
}

func (p *Path) runHarness() {
	initFn := p.eng.pkg.Func("init")
	if initFn != nil {
		p.curOwner = ownerGlobal
		p.callFunction(initFn, nil, nil)
		p.curOwner = ownerNone
	}
	fn := p.eng.pkg.Func(p.scn.Harness)
	if fn == nil {
		p.abort(abInconclusive, "harness %s not found", p.scn.Harness)
	}
	p.callFunction(fn, nil, nil)
}

func sortedKeys(m map[string]bool) []string {
	var out []string
	for k := range m {
		out = append(out, k)
	}
	sort.Strings(out)
	return out
}
