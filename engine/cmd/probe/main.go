package main

import (
	"fmt"
	"golang.org/x/tools/go/packages"
	"golang.org/x/tools/go/ssa"
	"golang.org/x/tools/go/ssa/ssautil"
)

func main() {
	cfg := &packages.Config{Mode: packages.LoadAllSyntax, Dir: "/repo", BuildFlags: []string{"-tags=verif"}}
	pkgs, err := packages.Load(cfg, ".")
	if err != nil { panic(err) }
	prog, spkgs := ssautil.AllPackages(pkgs, ssa.InstantiateGenerics)
	prog.Build()
	fmt.Println(len(spkgs), spkgs[0].Pkg.Path())
}
