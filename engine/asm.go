package main

// Plan 9 amd64 assembly front end for node16_amd64.s: parses the working tree's file on every run and
// evaluates the routines over terms. Only the mnemonics the file uses are known; anything else is an error.

import (
	"fmt"
	"os"
	"regexp"
	"strconv"
	"strings"
)

type AsmInstr struct {
	Label string
	Op    string
	Args  []string
	Line  int
}

type AsmFunc struct {
	Name   string
	Instrs []AsmInstr
	Labels map[string]int
	Args   map[string]int // name -> FP offset
}

var reDefine = regexp.MustCompile(`^#define\s+(\w+)\s+(\S+)`)
var reText = regexp.MustCompile(`^TEXT\s+·(\w+)\(SB\)`)
var reLabel = regexp.MustCompile(`^(\w+):\s*$`)

func ParseAsmFile(path string) ([]*AsmFunc, error) {
	data, err := os.ReadFile(path)
	if err != nil {
		return nil, err
	}
	defs := map[string]string{}
	var funcs []*AsmFunc
	var cur *AsmFunc
	pendingLabel := ""
	for ln, raw := range strings.Split(string(data), "\n") {
		line := raw
		if i := strings.Index(line, "//"); i >= 0 {
			line = line[:i]
		}
		line = strings.TrimSpace(line)
		if line == "" {
			continue
		}
		if m := reDefine.FindStringSubmatch(line); m != nil {
			defs[m[1]] = m[2]
			continue
		}
		if strings.HasPrefix(line, "#") {
			return nil, fmt.Errorf("line %d: unsupported preprocessor directive %q", ln+1, line)
		}
		if m := reText.FindStringSubmatch(line); m != nil {
			cur = &AsmFunc{Name: m[1], Labels: map[string]int{}, Args: map[string]int{}}
			funcs = append(funcs, cur)
			continue
		}
		if cur == nil {
			return nil, fmt.Errorf("line %d: instruction outside TEXT", ln+1)
		}
		if m := reLabel.FindStringSubmatch(line); m != nil {
			pendingLabel = m[1]
			cur.Labels[m[1]] = len(cur.Instrs)
			continue
		}
		fields := strings.Fields(line)
		op := fields[0]
		rest := strings.TrimSpace(line[len(op):])
		var args []string
		if rest != "" {
			for _, a := range strings.Split(rest, ",") {
				a = strings.TrimSpace(a)
				if d, ok := defs[a]; ok {
					a = d
				} else if strings.HasPrefix(a, "(") && strings.HasSuffix(a, ")") {
					if d, ok := defs[a[1:len(a)-1]]; ok {
						a = "(" + d + ")"
					}
				}
				args = append(args, a)
			}
		}
		cur.Instrs = append(cur.Instrs, AsmInstr{Label: pendingLabel, Op: op, Args: args, Line: ln + 1})
		pendingLabel = ""
	}
	return funcs, nil
}

type asmState struct {
	ts   *TermStore
	gpr  map[string]*Term // 64-bit
	xmm  map[string][]*Term
	zf   *Term
	keys []*Term
	clen *Term
	b    *Term
	gen  func(w uint8) *Term // garbage generator (nil: zeros)
}

func (s *asmState) clone() *asmState {
	n := &asmState{ts: s.ts, gpr: map[string]*Term{}, xmm: map[string][]*Term{}, zf: s.zf, keys: s.keys, clen: s.clen, b: s.b, gen: s.gen}
	for k, v := range s.gpr {
		n.gpr[k] = v
	}
	for k, v := range s.xmm {
		n.xmm[k] = v
	}
	return n
}

var reg8 = map[string]string{"AL": "AX", "BL": "BX", "CL": "CX", "DL": "DX"}

func gprName(r string) (string, bool) {
	if n, ok := reg8[r]; ok {
		return n, true
	}
	switch r {
	case "AX", "BX", "CX", "DX", "SI", "DI", "BP", "R8", "R9", "R10", "R11", "R12", "R13", "R14", "R15":
		return r, true
	}
	return "", false
}

func isXmm(r string) bool {
	if !strings.HasPrefix(r, "X") {
		return false
	}
	_, err := strconv.Atoi(r[1:])
	return err == nil
}

func (s *asmState) readGpr(r string) (*Term, error) {
	n, ok := gprName(r)
	if !ok {
		return nil, fmt.Errorf("unknown register %s", r)
	}
	if v, ok := s.gpr[n]; ok {
		return v, nil
	}
	var v *Term
	if s.gen != nil {
		v = s.gen(64)
	} else {
		v = s.ts.Const(64, 0)
	}
	s.gpr[n] = v
	return v, nil
}

// writeGpr writes the low w bits (w=8,16 preserve the rest; 32 zero-extends; 64 full).
func (s *asmState) writeGpr(r string, v *Term, w uint8) error {
	n, ok := gprName(r)
	if !ok {
		return fmt.Errorf("unknown register %s", r)
	}
	ts := s.ts
	switch w {
	case 64:
		s.gpr[n] = v
	case 32:
		s.gpr[n] = ts.Zext(v, 64)
	default:
		old, err := s.readGpr(r)
		if err != nil {
			return err
		}
		s.gpr[n] = ts.Concat(ts.Extract(old, 63, int(w)), v)
	}
	return nil
}

func (s *asmState) readXmm(r string) []*Term {
	if v, ok := s.xmm[r]; ok {
		return v
	}
	v := make([]*Term, 16)
	for i := range v {
		if s.gen != nil {
			v[i] = s.gen(8)
		} else {
			v[i] = s.ts.Const(8, 0)
		}
	}
	s.xmm[r] = v
	return v
}

func parseImm(a string) (uint64, bool) {
	if !strings.HasPrefix(a, "$") {
		return 0, false
	}
	v, err := strconv.ParseInt(a[1:], 0, 64)
	if err != nil {
		u, err2 := strconv.ParseUint(a[1:], 0, 64)
		if err2 != nil {
			return 0, false
		}
		return u, true
	}
	return uint64(v), true
}

var reFP = regexp.MustCompile(`^(\w+)\+(\d+)\(FP\)$`)

// operand value of width w
func (s *asmState) src(a string, w uint8) (*Term, error) {
	ts := s.ts
	if v, ok := parseImm(a); ok {
		return ts.Const(w, v), nil
	}
	if m := reFP.FindStringSubmatch(a); m != nil {
		switch m[1] {
		case "childrenLen":
			if w != 8 {
				return nil, fmt.Errorf("childrenLen read with width %d", w)
			}
			return s.clen, nil
		case "b":
			if w != 8 {
				return nil, fmt.Errorf("b read with width %d", w)
			}
			return s.b, nil
		}
		return nil, fmt.Errorf("unsupported FP operand %s", a)
	}
	if _, ok := gprName(a); ok {
		v, err := s.readGpr(a)
		if err != nil {
			return nil, err
		}
		return ts.Extract(v, int(w)-1, 0), nil
	}
	return nil, fmt.Errorf("unsupported source operand %s", a)
}

// asmWidth: operand width from the mnemonic's size suffix.
func asmWidth(op string) uint8 {
	switch op[len(op)-1] {
	case 'B':
		return 8
	case 'W':
		return 16
	case 'L':
		return 32
	}
	return 64
}

const keysPtrMagic = "·keys·"

// evalAsm runs from instruction pc; returns the value stored to ret.
func (s *asmState) run(f *AsmFunc, pc int, keysReg *string) (*Term, error) {
	ts := s.ts
	var ret *Term
	for ; pc < len(f.Instrs); pc++ {
		in := f.Instrs[pc]
		bad := func(format string, a ...interface{}) error {
			return fmt.Errorf("%s line %d (%s %s): %s", f.Name, in.Line, in.Op, strings.Join(in.Args, ", "), fmt.Sprintf(format, a...))
		}
		switch in.Op {
		case "MOVQ", "MOVD":
			if len(in.Args) != 2 {
				return nil, bad("operand count")
			}
			srcA, dst := in.Args[0], in.Args[1]
			if m := reFP.FindStringSubmatch(srcA); m != nil && m[1] == "keys" {
				if _, ok := gprName(dst); !ok {
					return nil, bad("keys pointer must go to a GPR")
				}
				*keysReg = dst
				continue
			}
			if m := reFP.FindStringSubmatch(dst); m != nil {
				if m[1] != "ret" {
					return nil, bad("store to argument slot")
				}
				v, err := s.src(srcA, 64)
				if err != nil {
					return nil, bad("%v", err)
				}
				ret = v
				continue
			}
			if isXmm(dst) {
				v, err := s.src(srcA, 64)
				if err != nil {
					return nil, bad("%v", err)
				}
				x := make([]*Term, 16)
				for i := 0; i < 8; i++ {
					x[i] = ts.Extract(v, i*8+7, i*8)
				}
				for i := 8; i < 16; i++ {
					x[i] = ts.Const(8, 0)
				}
				s.xmm[dst] = x
				continue
			}
			if dst == *keysReg {
				*keysReg = ""
			}
			v, err := s.src(srcA, 64)
			if err != nil {
				return nil, bad("%v", err)
			}
			if err := s.writeGpr(dst, v, 64); err != nil {
				return nil, bad("%v", err)
			}
		case "MOVB":
			v, err := s.src(in.Args[0], 8)
			if err != nil {
				return nil, bad("%v", err)
			}
			if err := s.writeGpr(in.Args[1], v, 8); err != nil {
				return nil, bad("%v", err)
			}
		case "PXOR":
			a, d := in.Args[0], in.Args[1]
			if !isXmm(a) || !isXmm(d) {
				return nil, bad("xmm operands expected")
			}
			x := make([]*Term, 16)
			if a == d {
				for i := range x {
					x[i] = ts.Const(8, 0)
				}
			} else {
				sa, sd := s.readXmm(a), s.readXmm(d)
				for i := range x {
					x[i] = ts.Bin(OBvXor, sd[i], sa[i])
				}
			}
			s.xmm[d] = x
		case "VMOVDQU", "MOVOU", "MOVUPS":
			a, d := in.Args[0], in.Args[1]
			if a != "("+*keysReg+")" || *keysReg == "" || !isXmm(d) {
				return nil, bad("only a 16-byte load through the keys pointer is supported")
			}
			x := make([]*Term, 16)
			copy(x, s.keys)
			s.xmm[d] = x
		case "PSHUFB":
			a, d := in.Args[0], in.Args[1]
			if !isXmm(a) || !isXmm(d) {
				return nil, bad("xmm operands expected")
			}
			ctl, sd := s.readXmm(a), s.readXmm(d)
			x := make([]*Term, 16)
			for i := 0; i < 16; i++ {
				c := ctl[i]
				// result byte = (c & 0x80) ? 0 : sd[c & 15]
				sel := ts.Extract(c, 3, 0)
				var v *Term = sd[15]
				for j := 14; j >= 0; j-- {
					v = ts.Ite(ts.Eq(sel, ts.Const(4, uint64(j))), sd[j], v)
				}
				x[i] = ts.Ite(ts.Eq(ts.Extract(c, 7, 7), ts.Const(1, 1)), ts.Const(8, 0), v)
			}
			s.xmm[d] = x
		case "PCMPGTB", "PCMPEQB":
			a, d := in.Args[0], in.Args[1]
			if !isXmm(a) || !isXmm(d) {
				return nil, bad("xmm operands expected")
			}
			sa, sd := s.readXmm(a), s.readXmm(d)
			x := make([]*Term, 16)
			for i := range x {
				var c *Term
				if in.Op == "PCMPGTB" {
					c = ts.Slt(sa[i], sd[i]) // dst > src, signed
				} else {
					c = ts.Eq(sd[i], sa[i])
				}
				x[i] = ts.Ite(c, ts.Const(8, 0xff), ts.Const(8, 0))
			}
			s.xmm[d] = x
		case "PMOVMSKB":
			a, d := in.Args[0], in.Args[1]
			if !isXmm(a) {
				return nil, bad("xmm source expected")
			}
			sa := s.readXmm(a)
			v := ts.Const(32, 0)
			for i := 0; i < 16; i++ {
				bit := ts.Zext(ts.Extract(sa[i], 7, 7), 32)
				v = ts.Bin(OBvOr, v, ts.Bin(OShl, bit, ts.Const(32, uint64(i))))
			}
			if err := s.writeGpr(d, v, 32); err != nil {
				return nil, bad("%v", err)
			}
		case "SALB", "SHLB", "SALW", "SHLW", "SALL", "SHLL", "SALQ", "SHLQ", "SHRB", "SHRW", "SHRL", "SHRQ":
			w := asmWidth(in.Op)
			cnt, err := s.src(in.Args[0], 8)
			if err != nil {
				return nil, bad("%v", err)
			}
			if w == 64 {
				cnt = ts.Bin(OBvAnd, cnt, ts.Const(8, 63))
			} else {
				cnt = ts.Bin(OBvAnd, cnt, ts.Const(8, 31))
			}
			v, err := s.src(in.Args[1], w)
			if err != nil {
				return nil, bad("%v", err)
			}
			var c *Term = cnt
			if w > 8 {
				c = ts.Zext(cnt, w)
			}
			op := OShl
			if strings.HasPrefix(in.Op, "SHR") {
				op = OLshr
			}
			r := ts.Bin(op, v, c)
			// flags after a shift depend on the count (unchanged when it is 0): not modelled
			s.zf = nil
			if err := s.writeGpr(in.Args[1], r, w); err != nil {
				return nil, bad("%v", err)
			}
		case "SUBB", "ANDB", "ADDB", "ORB", "XORB", "SUBW", "ANDW", "ADDW", "ORW", "XORW",
			"SUBL", "ANDL", "ADDL", "ORL", "XORL", "SUBQ", "ANDQ", "ADDQ", "ORQ", "XORQ":
			w := asmWidth(in.Op)
			a, err := s.src(in.Args[0], w)
			if err != nil {
				return nil, bad("%v", err)
			}
			v, err := s.src(in.Args[1], w)
			if err != nil {
				return nil, bad("%v", err)
			}
			op := map[string]Op{"SUB": OSub, "AND": OBvAnd, "ADD": OAdd, "OR": OBvOr, "XOR": OBvXor}[in.Op[:len(in.Op)-1]]
			r := ts.Bin(op, v, a)
			s.zf = ts.Eq(r, ts.Const(w, 0))
			if err := s.writeGpr(in.Args[1], r, w); err != nil {
				return nil, bad("%v", err)
			}
		case "NOTB", "NOTW", "NOTL", "NOTQ", "NEGB", "NEGW", "NEGL", "NEGQ", "INCB", "INCW", "INCL", "INCQ", "DECB", "DECW", "DECL", "DECQ":
			w := asmWidth(in.Op)
			v, err := s.src(in.Args[0], w)
			if err != nil {
				return nil, bad("%v", err)
			}
			var r *Term
			switch in.Op[:3] {
			case "NOT":
				r = ts.Bin(OBvXor, v, ts.Const(w, ^uint64(0)))
			case "NEG":
				r = ts.Bin(OSub, ts.Const(w, 0), v)
				s.zf = ts.Eq(r, ts.Const(w, 0))
			case "INC":
				r = ts.Bin(OAdd, v, ts.Const(w, 1))
				s.zf = ts.Eq(r, ts.Const(w, 0))
			case "DEC":
				r = ts.Bin(OSub, v, ts.Const(w, 1))
				s.zf = ts.Eq(r, ts.Const(w, 0))
			}
			if err := s.writeGpr(in.Args[0], r, w); err != nil {
				return nil, bad("%v", err)
			}
		case "MOVW", "MOVL":
			w := asmWidth(in.Op)
			v, err := s.src(in.Args[0], w)
			if err != nil {
				return nil, bad("%v", err)
			}
			if err := s.writeGpr(in.Args[1], v, w); err != nil {
				return nil, bad("%v", err)
			}
		case "MOVBLZX", "MOVBQZX", "MOVWLZX", "MOVWQZX", "MOVBWZX":
			sw := uint8(8)
			if in.Op[3] == 'W' {
				sw = 16
			}
			dw := map[byte]uint8{'W': 16, 'L': 32, 'Q': 64}[in.Op[4]]
			v, err := s.src(in.Args[0], sw)
			if err != nil {
				return nil, bad("%v", err)
			}
			if err := s.writeGpr(in.Args[1], ts.Zext(v, dw), dw); err != nil {
				return nil, bad("%v", err)
			}
		case "CMPB", "CMPW", "CMPL", "CMPQ":
			w := asmWidth(in.Op)
			a, err := s.src(in.Args[0], w)
			if err != nil {
				return nil, bad("%v", err)
			}
			b, err := s.src(in.Args[1], w)
			if err != nil {
				return nil, bad("%v", err)
			}
			s.zf = ts.Eq(a, b)
		case "TESTB", "TESTW", "TESTL", "TESTQ":
			w := asmWidth(in.Op)
			a, err := s.src(in.Args[0], w)
			if err != nil {
				return nil, bad("%v", err)
			}
			b, err := s.src(in.Args[1], w)
			if err != nil {
				return nil, bad("%v", err)
			}
			s.zf = ts.Eq(ts.Bin(OBvAnd, a, b), ts.Const(w, 0))
		case "TZCNTW", "TZCNTL", "TZCNTQ":
			w := asmWidth(in.Op)
			v, err := s.src(in.Args[0], w)
			if err != nil {
				return nil, bad("%v", err)
			}
			r := ts.Ctz(v)
			s.zf = ts.Eq(r, ts.Const(w, 0))
			if err := s.writeGpr(in.Args[1], r, w); err != nil {
				return nil, bad("%v", err)
			}
		case "JMP":
			tgt, ok := f.Labels[in.Args[0]]
			if !ok {
				return nil, bad("unknown label")
			}
			if tgt <= pc {
				return nil, bad("backward jump")
			}
			pc = tgt - 1
		case "JEQ", "JNE", "JZ", "JNZ":
			if s.zf == nil {
				return nil, bad("flags undefined")
			}
			tgt, ok := f.Labels[in.Args[0]]
			if !ok {
				return nil, bad("unknown label")
			}
			if tgt <= pc {
				return nil, bad("backward jump")
			}
			cond := s.zf
			if in.Op == "JNE" || in.Op == "JNZ" {
				cond = ts.Not(cond)
			}
			k1, k2 := *keysReg, *keysReg
			taken, err := s.clone().run(f, tgt, &k1)
			if err != nil {
				return nil, err
			}
			fall, err := s.clone().run(f, pc+1, &k2)
			if err != nil {
				return nil, err
			}
			return ts.Ite(cond, taken, fall), nil
		case "RET":
			if ret == nil {
				return nil, bad("RET without a stored result")
			}
			return ret, nil
		default:
			return nil, bad("mnemonic not in the table")
		}
	}
	return nil, fmt.Errorf("%s: fell off the end", f.Name)
}

// EvalAsm evaluates an assembly routine (keys *[16]byte, childrenLen uint8, b byte) int.
func EvalAsm(ts *TermStore, f *AsmFunc, keys []*Term, clen, b *Term, gen func(w uint8) *Term) (*Term, error) {
	s := &asmState{ts: ts, gpr: map[string]*Term{}, xmm: map[string][]*Term{}, keys: keys, clen: clen, b: b, gen: gen}
	kr := ""
	return s.run(f, 0, &kr)
}

func (p *Path) runAsm(f *AsmFunc, args []Value) Value {
	c := p.ptrCell(args[0])
	if c == nil {
		p.faultNow("nil pointer dereference")
	}
	if len(c.kids) != 16 {
		p.unsupported("asm %s: keys is not [16]byte", f.Name)
	}
	keys := make([]*Term, 16)
	for i := range keys {
		keys[i] = p.byteAt(c, i)
	}
	r, err := EvalAsm(p.ts, f, keys, args[1].(*Term), args[2].(*Term), nil)
	if err != nil {
		p.abort(abInconclusive, "asm front end: %v", err)
	}
	return r
}
