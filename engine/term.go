package main

// Terms: hash-consed bit-vector / boolean expressions with constant folding,
// a concrete evaluator and an SMT-LIB2 printer.

import (
	"fmt"
	"math"
	"math/bits"
	"strings"
)

type Op uint8

const (
	OConst Op = iota
	OVar
	ONot
	OAnd
	OOr
	OEq
	OUlt
	OUle
	OSlt
	OSle
	OIte
	OBvNot
	OBvNeg
	OAdd
	OSub
	OMul
	OUdiv
	OUrem
	OSdiv
	OSrem
	OBvAnd
	OBvOr
	OBvXor
	OShl
	OLshr
	OAshr
	OExtract // k = hi, k2 = lo
	OConcat
	OZext // to width w
	OSext
	OFIsNaN // bool, arg is bit pattern of width 32/64
	OFIsInf // bool
	OFLt    // bool
	OFLe
	OFEq
	OF32to64 // width 64, only consumable by FP predicates
	OCtz     // count trailing zeros, width preserved (w==0 input -> w)
)

var opNames = map[Op]string{
	ONot: "not", OAnd: "and", OOr: "or", OEq: "=", OUlt: "bvult", OUle: "bvule", OSlt: "bvslt", OSle: "bvsle",
	OIte: "ite", OBvNot: "bvnot", OBvNeg: "bvneg", OAdd: "bvadd", OSub: "bvsub", OMul: "bvmul", OUdiv: "bvudiv",
	OUrem: "bvurem", OSdiv: "bvsdiv", OSrem: "bvsrem", OBvAnd: "bvand", OBvOr: "bvor", OBvXor: "bvxor",
	OShl: "bvshl", OLshr: "bvlshr", OAshr: "bvashr", OConcat: "concat",
}

type Term struct {
	op   Op
	w    uint8 // 0 = Bool
	a    *Term
	b    *Term
	c    *Term
	k    uint64
	k2   int
	name string
	id   int32
}

type termKey struct {
	op      Op
	w       uint8
	a, b, c int32
	k       uint64
	k2      int
	name    string
}

type TermStore struct {
	widen map[*Term]*Term // exact float32->float64 widening (bit-vector form) -> its float32 source
	tab   map[termKey]*Term
	next  int32
	True  *Term
	False *Term
}

func NewTermStore() *TermStore {
	ts := &TermStore{tab: make(map[termKey]*Term, 1024), widen: map[*Term]*Term{}}
	ts.False = ts.mk(OConst, 0, nil, nil, nil, 0, 0, "")
	ts.True = ts.mk(OConst, 0, nil, nil, nil, 1, 0, "")
	return ts
}

func tid(t *Term) int32 {
	if t == nil {
		return -1
	}
	return t.id
}

func (ts *TermStore) mk(op Op, w uint8, a, b, c *Term, k uint64, k2 int, name string) *Term {
	key := termKey{op, w, tid(a), tid(b), tid(c), k, k2, name}
	if t, ok := ts.tab[key]; ok {
		return t
	}
	t := &Term{op: op, w: w, a: a, b: b, c: c, k: k, k2: k2, name: name, id: ts.next}
	ts.next++
	ts.tab[key] = t
	return t
}

func mask(w uint8) uint64 {
	if w >= 64 {
		return ^uint64(0)
	}
	return (uint64(1) << w) - 1
}

func (ts *TermStore) Const(w uint8, v uint64) *Term {
	if w == 0 {
		if v != 0 {
			return ts.True
		}
		return ts.False
	}
	return ts.mk(OConst, w, nil, nil, nil, v&mask(w), 0, "")
}

func (ts *TermStore) Bool(b bool) *Term {
	if b {
		return ts.True
	}
	return ts.False
}

func (ts *TermStore) Var(name string, w uint8) *Term {
	return ts.mk(OVar, w, nil, nil, nil, 0, 0, name)
}

func (t *Term) IsConst() bool { return t.op == OConst }
func (t *Term) IsTrue() bool  { return t.op == OConst && t.w == 0 && t.k == 1 }
func (t *Term) IsFalse() bool { return t.op == OConst && t.w == 0 && t.k == 0 }

func sext64(v uint64, w uint8) int64 {
	if w >= 64 {
		return int64(v)
	}
	sh := 64 - uint(w)
	return int64(v<<sh) >> sh
}

// ---------- boolean ----------

func (ts *TermStore) Not(a *Term) *Term {
	if a.w != 0 {
		panic("Not on non-bool")
	}
	if a.op == OConst {
		return ts.Bool(a.k == 0)
	}
	if a.op == ONot {
		return a.a
	}
	return ts.mk(ONot, 0, a, nil, nil, 0, 0, "")
}

func (ts *TermStore) And(a, b *Term) *Term {
	if a.w != 0 || b.w != 0 {
		panic("And on non-bool")
	}
	if a.IsFalse() || b.IsFalse() {
		return ts.False
	}
	if a.IsTrue() {
		return b
	}
	if b.IsTrue() {
		return a
	}
	if a == b {
		return a
	}
	if (a.op == ONot && a.a == b) || (b.op == ONot && b.a == a) {
		return ts.False
	}
	if a.id > b.id {
		a, b = b, a
	}
	return ts.mk(OAnd, 0, a, b, nil, 0, 0, "")
}

func (ts *TermStore) Or(a, b *Term) *Term {
	if a.w != 0 || b.w != 0 {
		panic("Or on non-bool")
	}
	if a.IsTrue() || b.IsTrue() {
		return ts.True
	}
	if a.IsFalse() {
		return b
	}
	if b.IsFalse() {
		return a
	}
	if a == b {
		return a
	}
	if (a.op == ONot && a.a == b) || (b.op == ONot && b.a == a) {
		return ts.True
	}
	if a.id > b.id {
		a, b = b, a
	}
	return ts.mk(OOr, 0, a, b, nil, 0, 0, "")
}

func (ts *TermStore) Eq(a, b *Term) *Term {
	if a.w != b.w {
		panic(fmt.Sprintf("Eq width mismatch %d %d", a.w, b.w))
	}
	if a == b {
		return ts.True
	}
	if a.op == OConst && b.op == OConst {
		return ts.Bool(a.k == b.k)
	}
	if a.w == 0 {
		// bool equality
		if a.op == OConst {
			if a.k == 1 {
				return b
			}
			return ts.Not(b)
		}
		if b.op == OConst {
			if b.k == 1 {
				return a
			}
			return ts.Not(a)
		}
	}
	if a.op == OConst {
		a, b = b, a
	}
	// now b may be const
	if b.op == OConst {
		switch a.op {
		case OIte:
			// ite(c, k1, k2) == k  with const arms
			if a.b.op == OConst && a.c.op == OConst {
				tb, tc := a.b.k == b.k, a.c.k == b.k
				switch {
				case tb && tc:
					return ts.True
				case tb && !tc:
					return a.a
				case !tb && tc:
					return ts.Not(a.a)
				default:
					return ts.False
				}
			}
			if a.b.op == OConst {
				if a.b.k == b.k {
					return ts.Or(a.a, ts.Eq(a.c, b))
				}
				return ts.And(ts.Not(a.a), ts.Eq(a.c, b))
			}
			if a.c.op == OConst {
				if a.c.k == b.k {
					return ts.Or(ts.Not(a.a), ts.Eq(a.b, b))
				}
				return ts.And(a.a, ts.Eq(a.b, b))
			}
		case OZext:
			if b.k > mask(a.a.w) {
				return ts.False
			}
			return ts.Eq(a.a, ts.Const(a.a.w, b.k))
		case OBvXor:
			if a.b.op == OConst {
				return ts.Eq(a.a, ts.Const(a.w, b.k^a.b.k))
			}
		case OAdd:
			if a.b.op == OConst {
				return ts.Eq(a.a, ts.Const(a.w, b.k-a.b.k))
			}
		case OSub:
			if a.b.op == OConst {
				return ts.Eq(a.a, ts.Const(a.w, b.k+a.b.k))
			}
		}
	}
	if a.id > b.id && b.op != OConst {
		a, b = b, a
	}
	return ts.mk(OEq, 0, a, b, nil, 0, 0, "")
}

func (ts *TermStore) Ne(a, b *Term) *Term { return ts.Not(ts.Eq(a, b)) }

func (ts *TermStore) Ite(c, a, b *Term) *Term {
	if c.w != 0 {
		panic("Ite cond non-bool")
	}
	if a.w != b.w {
		panic("Ite width mismatch")
	}
	if c.IsTrue() {
		return a
	}
	if c.IsFalse() {
		return b
	}
	if a == b {
		return a
	}
	if a.w == 0 {
		if a.IsTrue() && b.IsFalse() {
			return c
		}
		if a.IsFalse() && b.IsTrue() {
			return ts.Not(c)
		}
		if a.IsTrue() {
			return ts.Or(c, b)
		}
		if a.IsFalse() {
			return ts.And(ts.Not(c), b)
		}
		if b.IsTrue() {
			return ts.Or(ts.Not(c), a)
		}
		if b.IsFalse() {
			return ts.And(c, a)
		}
	}
	if c.op == ONot {
		return ts.Ite(c.a, b, a)
	}
	// ite(c, x, ite(c, y, z)) = ite(c, x, z)
	if b.op == OIte && b.a == c {
		return ts.Ite(c, a, b.c)
	}
	if a.op == OIte && a.a == c {
		return ts.Ite(c, a.b, b)
	}
	return ts.mk(OIte, a.w, c, a, b, 0, 0, "")
}

func (ts *TermStore) cmp(op Op, a, b *Term) *Term {
	if a.w != b.w {
		panic(fmt.Sprintf("cmp width mismatch %d %d", a.w, b.w))
	}
	if a.op == OConst && b.op == OConst {
		var r bool
		switch op {
		case OUlt:
			r = a.k < b.k
		case OUle:
			r = a.k <= b.k
		case OSlt:
			r = sext64(a.k, a.w) < sext64(b.k, b.w)
		case OSle:
			r = sext64(a.k, a.w) <= sext64(b.k, b.w)
		}
		return ts.Bool(r)
	}
	if a == b {
		return ts.Bool(op == OUle || op == OSle)
	}
	if op == OUlt && b.op == OConst && b.k == 0 {
		return ts.False
	}
	if op == OUle && a.op == OConst && a.k == 0 {
		return ts.True
	}
	// zext(x) <u const  where const > max(x)
	if (op == OUlt || op == OUle) && a.op == OZext && b.op == OConst {
		m := mask(a.a.w)
		if b.k > m {
			return ts.True
		}
		return ts.cmp(op, a.a, ts.Const(a.a.w, b.k))
	}
	if (op == OUlt || op == OUle) && b.op == OZext && a.op == OConst {
		m := mask(b.a.w)
		if a.k > m {
			return ts.False
		}
		return ts.cmp(op, ts.Const(b.a.w, a.k), b.a)
	}
	if (op == OSlt || op == OSle) && a.op == OZext && b.op == OConst && a.a.w < a.w {
		// zext is non-negative
		bv := sext64(b.k, b.w)
		if bv < 0 {
			return ts.False
		}
		if op == OSlt {
			return ts.cmp(OUlt, a, b)
		}
		return ts.cmp(OUle, a, b)
	}
	if (op == OSlt || op == OSle) && b.op == OZext && a.op == OConst && b.a.w < b.w {
		av := sext64(a.k, a.w)
		if av < 0 {
			return ts.True
		}
		if op == OSlt {
			return ts.cmp(OUlt, a, b)
		}
		return ts.cmp(OUle, a, b)
	}
	return ts.mk(op, 0, a, b, nil, 0, 0, "")
}

func (ts *TermStore) Ult(a, b *Term) *Term { return ts.cmp(OUlt, a, b) }
func (ts *TermStore) Ule(a, b *Term) *Term { return ts.cmp(OUle, a, b) }
func (ts *TermStore) Slt(a, b *Term) *Term { return ts.cmp(OSlt, a, b) }
func (ts *TermStore) Sle(a, b *Term) *Term { return ts.cmp(OSle, a, b) }

// ---------- bit-vector ----------

func evalBin(op Op, w uint8, x, y uint64) uint64 {
	m := mask(w)
	switch op {
	case OAdd:
		return (x + y) & m
	case OSub:
		return (x - y) & m
	case OMul:
		return (x * y) & m
	case OUdiv:
		if y == 0 {
			return m
		}
		return x / y
	case OUrem:
		if y == 0 {
			return x
		}
		return x % y
	case OSdiv:
		sx, sy := sext64(x, w), sext64(y, w)
		if sy == 0 {
			if sx < 0 {
				return 1
			}
			return m
		}
		if sy == -1 {
			return uint64(-sx) & m
		}
		return uint64(sx/sy) & m
	case OSrem:
		sx, sy := sext64(x, w), sext64(y, w)
		if sy == 0 {
			return x
		}
		if sy == -1 {
			return 0
		}
		return uint64(sx%sy) & m
	case OBvAnd:
		return x & y
	case OBvOr:
		return x | y
	case OBvXor:
		return x ^ y
	case OShl:
		if y >= uint64(w) {
			return 0
		}
		return (x << y) & m
	case OLshr:
		if y >= uint64(w) {
			return 0
		}
		return x >> y
	case OAshr:
		sx := sext64(x, w)
		if y >= uint64(w) {
			y = uint64(w) - 1
		}
		return uint64(sx>>y) & m
	}
	panic("evalBin")
}

func (ts *TermStore) Bin(op Op, a, b *Term) *Term {
	if a.w != b.w || a.w == 0 {
		panic(fmt.Sprintf("Bin %v width mismatch %d %d", op, a.w, b.w))
	}
	w := a.w
	if a.op == OConst && b.op == OConst {
		return ts.Const(w, evalBin(op, w, a.k, b.k))
	}
	commut := op == OAdd || op == OMul || op == OBvAnd || op == OBvOr || op == OBvXor
	if commut && a.op == OConst {
		a, b = b, a
	}
	if b.op == OConst {
		switch op {
		case OAdd, OSub, OBvOr, OBvXor, OShl, OLshr, OAshr:
			if b.k == 0 {
				return a
			}
		case OMul:
			if b.k == 0 {
				return b
			}
			if b.k == 1 {
				return a
			}
		case OBvAnd:
			if b.k == 0 {
				return b
			}
			if b.k == mask(w) {
				return a
			}
		case OUdiv:
			if b.k == 1 {
				return a
			}
		}
		switch op {
		case OBvOr:
			if b.k == mask(w) {
				return b
			}
		case OShl, OLshr:
			if b.k >= uint64(w) {
				return ts.Const(w, 0)
			}
		}
		// (x + c1) + c2
		if op == OAdd && a.op == OAdd && a.b.op == OConst {
			return ts.Bin(OAdd, a.a, ts.Const(w, a.b.k+b.k))
		}
		if op == OSub {
			return ts.Bin(OAdd, a, ts.Const(w, -b.k))
		}
		if op == OBvAnd && a.op == OZext && b.k&mask(a.a.w) == mask(a.a.w) {
			// masking a zero-extended value with all its bits
			return a
		}
		if op == OBvAnd && a.op == OBvAnd && a.b.op == OConst {
			return ts.Bin(OBvAnd, a.a, ts.Const(w, a.b.k&b.k))
		}
		if op == OBvXor && a.op == OBvXor && a.b.op == OConst {
			return ts.Bin(OBvXor, a.a, ts.Const(w, a.b.k^b.k))
		}
	}
	if a == b {
		switch op {
		case OSub, OBvXor:
			return ts.Const(w, 0)
		case OBvAnd, OBvOr:
			return a
		}
	}
	if commut && a.id > b.id && b.op != OConst {
		a, b = b, a
	}
	return ts.mk(op, w, a, b, nil, 0, 0, "")
}

func (ts *TermStore) BvNot(a *Term) *Term {
	if a.op == OConst {
		return ts.Const(a.w, ^a.k)
	}
	if a.op == OBvNot {
		return a.a
	}
	return ts.mk(OBvNot, a.w, a, nil, nil, 0, 0, "")
}

func (ts *TermStore) BvNeg(a *Term) *Term {
	if a.op == OConst {
		return ts.Const(a.w, -a.k)
	}
	return ts.mk(OBvNeg, a.w, a, nil, nil, 0, 0, "")
}

func (ts *TermStore) Extract(a *Term, hi, lo int) *Term {
	if hi < lo || hi >= int(a.w) {
		panic(fmt.Sprintf("bad extract %d %d of w%d", hi, lo, a.w))
	}
	w := uint8(hi - lo + 1)
	if w == a.w {
		return a
	}
	switch a.op {
	case OConst:
		return ts.Const(w, a.k>>uint(lo))
	case OExtract:
		return ts.Extract(a.a, hi+a.k2, lo+a.k2)
	case OZext:
		iw := int(a.a.w)
		if hi < iw {
			return ts.Extract(a.a, hi, lo)
		}
		if lo >= iw {
			return ts.Const(w, 0)
		}
		return ts.Zext(ts.Extract(a.a, iw-1, lo), w)
	case OSext:
		iw := int(a.a.w)
		if hi < iw {
			return ts.Extract(a.a, hi, lo)
		}
	case OConcat:
		lw := int(a.b.w)
		if hi < lw {
			return ts.Extract(a.b, hi, lo)
		}
		if lo >= lw {
			return ts.Extract(a.a, hi-lw, lo-lw)
		}
	case OBvAnd, OBvOr, OBvXor:
		if a.b.op == OConst || a.a.op == OConcat || a.b.op == OConcat || a.a.op == OZext || a.b.op == OZext {
			return ts.Bin(a.op, ts.Extract(a.a, hi, lo), ts.Extract(a.b, hi, lo))
		}
	case OShl:
		if a.b.op == OConst {
			s := int(a.b.k)
			if lo >= s {
				return ts.Extract(a.a, hi-s, lo-s)
			}
			if hi < s {
				return ts.Const(w, 0)
			}
		}
	case OLshr:
		if a.b.op == OConst {
			s := int(a.b.k)
			if hi+s < int(a.w) {
				return ts.Extract(a.a, hi+s, lo+s)
			}
			if lo+s >= int(a.w) {
				return ts.Const(w, 0)
			}
		}
	case OIte:
		if a.b.op == OConst || a.c.op == OConst {
			return ts.Ite(a.a, ts.Extract(a.b, hi, lo), ts.Extract(a.c, hi, lo))
		}
	}
	return ts.mk(OExtract, w, a, nil, nil, uint64(hi), lo, "")
}

func (ts *TermStore) Concat(hi, lo *Term) *Term {
	w := hi.w + lo.w
	if w > 64 {
		panic("concat too wide")
	}
	if hi.op == OConst && lo.op == OConst {
		return ts.Const(w, hi.k<<lo.w|lo.k)
	}
	if hi.op == OConst && hi.k == 0 {
		return ts.Zext(lo, w)
	}
	// concat(extract(x,h,m+1), extract(x,m,l)) = extract(x,h,l)
	if hi.op == OExtract && lo.op == OExtract && hi.a == lo.a && hi.k2 == int(lo.k)+1 {
		return ts.Extract(hi.a, int(hi.k), lo.k2)
	}
	return ts.mk(OConcat, w, hi, lo, nil, 0, 0, "")
}

func (ts *TermStore) Zext(a *Term, w uint8) *Term {
	if w == a.w {
		return a
	}
	if w < a.w {
		return ts.Extract(a, int(w)-1, 0)
	}
	if a.op == OConst {
		return ts.Const(w, a.k)
	}
	if a.op == OZext {
		return ts.Zext(a.a, w)
	}
	return ts.mk(OZext, w, a, nil, nil, 0, 0, "")
}

func (ts *TermStore) Sext(a *Term, w uint8) *Term {
	if w == a.w {
		return a
	}
	if w < a.w {
		return ts.Extract(a, int(w)-1, 0)
	}
	if a.op == OConst {
		return ts.Const(w, uint64(sext64(a.k, a.w)))
	}
	if a.op == OZext && a.a.w < a.w {
		return ts.Zext(a.a, w)
	}
	return ts.mk(OSext, w, a, nil, nil, 0, 0, "")
}

func (ts *TermStore) Ctz(a *Term) *Term {
	if a.op == OConst {
		if a.k == 0 {
			return ts.Const(a.w, uint64(a.w))
		}
		return ts.Const(a.w, uint64(bits.TrailingZeros64(a.k)))
	}
	return ts.mk(OCtz, a.w, a, nil, nil, 0, 0, "")
}

// ---------- floating point (bit patterns) ----------

func fbits(w uint8, v uint64) float64 {
	if w == 32 {
		return float64(math.Float32frombits(uint32(v)))
	}
	return math.Float64frombits(v)
}

// Floating point on bit patterns. The default constructors are bit-precise IEEE-754 encodings in
// pure bit-vector arithmetic (sign/magnitude); the *Theory constructors build the same predicates in
// the solver's FP theory and are used by the lemma harnesses that prove the two agree for all inputs.

func fmag(ts *TermStore, a *Term) *Term { return ts.Bin(OBvAnd, a, ts.Const(a.w, mask(a.w-1))) }
func fsign(ts *TermStore, a *Term) *Term {
	return ts.Eq(ts.Extract(a, int(a.w)-1, int(a.w)-1), ts.Const(1, 1))
}
func finfBits(w uint8) uint64 {
	if w == 32 {
		return 0x7f800000
	}
	return 0x7ff0000000000000
}

func (ts *TermStore) FIsNaN(a *Term) *Term {
	if a.op == OF32to64 {
		return ts.FIsNaN(a.a)
	}
	if src, ok := ts.widen[a]; ok {
		return ts.FIsNaN(src) // widening preserves NaN-ness (lemma hFpWidenLemma)
	}
	if a.op == OConst {
		return ts.Bool(math.IsNaN(fbits(a.w, a.k)))
	}
	return ts.Ult(ts.Const(a.w, finfBits(a.w)), fmag(ts, a))
}

// FIsInf: sign >0 +inf, <0 -inf, 0 either
func (ts *TermStore) FIsInf(a *Term, sign int) *Term {
	if a.op == OF32to64 {
		return ts.FIsInf(a.a, sign)
	}
	if src, ok := ts.widen[a]; ok {
		return ts.FIsInf(src, sign) // widening maps exactly the infinities to the infinities (lemma)
	}
	if a.op == OConst {
		return ts.Bool(math.IsInf(fbits(a.w, a.k), sign))
	}
	pos := finfBits(a.w)
	neg := pos | uint64(1)<<(a.w-1)
	switch {
	case sign > 0:
		return ts.Eq(a, ts.Const(a.w, pos))
	case sign < 0:
		return ts.Eq(a, ts.Const(a.w, neg))
	}
	return ts.Or(ts.Eq(a, ts.Const(a.w, pos)), ts.Eq(a, ts.Const(a.w, neg)))
}

func (ts *TermStore) FCmp(op Op, a, b *Term) *Term {
	if a.w != b.w {
		panic("FCmp width")
	}
	if a.op == OF32to64 && b.op == OF32to64 {
		return ts.FCmp(op, a.a, b.a) // float32 -> float64 is exact and order preserving
	}
	if sa, ok := ts.widen[a]; ok {
		if sb, ok := ts.widen[b]; ok {
			return ts.FCmp(op, sa, sb) // widening preserves <, <=, == (lemma hFpWidenLemma)
		}
		if b.op == OConst {
			f := math.Float64frombits(b.k)
			if float64(float32(f)) == f || math.IsNaN(f) {
				return ts.FCmp(op, sa, ts.Const(32, uint64(math.Float32bits(float32(f)))))
			}
		}
	} else if sb, ok := ts.widen[b]; ok && a.op == OConst {
		f := math.Float64frombits(a.k)
		if float64(float32(f)) == f || math.IsNaN(f) {
			return ts.FCmp(op, ts.Const(32, uint64(math.Float32bits(float32(f)))), sb)
		}
	}
	if a.op == OConst && b.op == OConst {
		x, y := fbits(a.w, a.k), fbits(b.w, b.k)
		switch op {
		case OFLt:
			return ts.Bool(x < y)
		case OFLe:
			return ts.Bool(x <= y)
		case OFEq:
			return ts.Bool(x == y)
		}
	}
	if a.op == OF32to64 || b.op == OF32to64 {
		return ts.mk(op, 0, a, b, nil, 0, 0, "") // mixed: leave to the FP theory
	}
	ma, mb := fmag(ts, a), fmag(ts, b)
	sa, sb := fsign(ts, a), fsign(ts, b)
	zero := ts.Const(a.w, 0)
	noNaN := ts.And(ts.Not(ts.FIsNaN(a)), ts.Not(ts.FIsNaN(b)))
	bothZero := ts.And(ts.Eq(ma, zero), ts.Eq(mb, zero))
	eq := ts.And(noNaN, ts.Or(ts.Eq(a, b), bothZero))
	lt := ts.And(noNaN, ts.Or(ts.And(ts.And(sa, ts.Not(sb)), ts.Not(bothZero)),
		ts.Or(ts.And(ts.And(ts.Not(sa), ts.Not(sb)), ts.Ult(ma, mb)), ts.And(ts.And(sa, sb), ts.Ult(mb, ma)))))
	switch op {
	case OFEq:
		return eq
	case OFLt:
		return lt
	}
	return ts.Or(lt, eq)
}

// FCmpTheory / FIsNaNTheory: the solver's own floating-point theory.
func (ts *TermStore) FCmpTheory(op Op, a, b *Term) *Term { return ts.mk(op, 0, a, b, nil, 0, 0, "") }
func (ts *TermStore) FIsNaNTheory(a *Term) *Term         { return ts.mk(OFIsNaN, 0, a, nil, nil, 0, 0, "") }

// F32to64: exact widening of a float32 bit pattern to the float64 bit pattern, in bit-vector arithmetic
// (normal numbers: re-biased exponent; subnormals: normalised through an ite chain over the leading bit;
// infinities/NaNs: all-ones exponent, payload shifted, quiet bit set for NaNs as the hardware does).
func (ts *TermStore) F32to64(a *Term) *Term {
	if a.op == OConst {
		return ts.Const(64, math.Float64bits(float64(math.Float32frombits(uint32(a.k)))))
	}
	sign := ts.Zext(ts.Extract(a, 31, 31), 64)
	exp := ts.Zext(ts.Extract(a, 30, 23), 64)
	man := ts.Zext(ts.Extract(a, 22, 0), 64)
	c := func(v uint64) *Term { return ts.Const(64, v) }
	shl := func(x *Term, n uint64) *Term { return ts.Bin(OShl, x, c(n)) }
	pack := func(e, m *Term) *Term {
		return ts.Bin(OBvOr, shl(sign, 63), ts.Bin(OBvOr, shl(e, 52), m))
	}
	normal := pack(ts.Bin(OAdd, exp, c(896)), shl(man, 29))
	isNaN := ts.Not(ts.Eq(man, c(0)))
	infnan := pack(c(0x7ff), ts.Bin(OBvOr, shl(man, 29), ts.Ite(isNaN, c(1<<51), c(0))))
	zero := shl(sign, 63)
	// subnormal: value = man * 2^-149, highest set bit h in 0..22
	sub := zero
	for h := 0; h <= 22; h++ {
		bit := ts.Eq(ts.Extract(a, h, h), ts.Const(1, 1))
		m := ts.Bin(OBvAnd, shl(man, uint64(23-h)), c(0x7fffff))
		sub = ts.Ite(bit, pack(c(uint64(h+874)), shl(m, 29)), sub)
	}
	expZero := ts.Eq(exp, c(0))
	expOnes := ts.Eq(exp, c(255))
	r := ts.Ite(expOnes, infnan, ts.Ite(expZero, sub, normal))
	ts.widen[r] = a
	return r
}

// ---------- evaluation under a model ----------

type Model map[string]uint64

type evalCtx struct {
	m    Model
	memo map[*Term]uint64
}

func Eval(t *Term, m Model) uint64 {
	c := evalCtx{m: m, memo: make(map[*Term]uint64)}
	return c.eval(t)
}

func (c *evalCtx) eval(t *Term) uint64 {
	switch t.op {
	case OConst:
		return t.k
	case OVar:
		return c.m[t.name] & maskb(t.w)
	}
	if v, ok := c.memo[t]; ok {
		return v
	}
	var r uint64
	b2u := func(b bool) uint64 {
		if b {
			return 1
		}
		return 0
	}
	switch t.op {
	case ONot:
		r = 1 - c.eval(t.a)
	case OAnd:
		r = c.eval(t.a) & c.eval(t.b)
	case OOr:
		r = c.eval(t.a) | c.eval(t.b)
	case OEq:
		r = b2u(c.eval(t.a) == c.eval(t.b))
	case OUlt:
		r = b2u(c.eval(t.a) < c.eval(t.b))
	case OUle:
		r = b2u(c.eval(t.a) <= c.eval(t.b))
	case OSlt:
		r = b2u(sext64(c.eval(t.a), t.a.w) < sext64(c.eval(t.b), t.b.w))
	case OSle:
		r = b2u(sext64(c.eval(t.a), t.a.w) <= sext64(c.eval(t.b), t.b.w))
	case OIte:
		if c.eval(t.a) != 0 {
			r = c.eval(t.b)
		} else {
			r = c.eval(t.c)
		}
	case OBvNot:
		r = ^c.eval(t.a) & mask(t.w)
	case OBvNeg:
		r = -c.eval(t.a) & mask(t.w)
	case OAdd, OSub, OMul, OUdiv, OUrem, OSdiv, OSrem, OBvAnd, OBvOr, OBvXor, OShl, OLshr, OAshr:
		r = evalBin(t.op, t.w, c.eval(t.a), c.eval(t.b))
	case OExtract:
		r = (c.eval(t.a) >> uint(t.k2)) & mask(t.w)
	case OConcat:
		r = c.eval(t.a)<<t.b.w | c.eval(t.b)
	case OZext:
		r = c.eval(t.a)
	case OSext:
		r = uint64(sext64(c.eval(t.a), t.a.w)) & mask(t.w)
	case OCtz:
		v := c.eval(t.a)
		if v == 0 {
			r = uint64(t.w)
		} else {
			r = uint64(bits.TrailingZeros64(v))
		}
	case OFIsNaN:
		r = b2u(math.IsNaN(fbits(t.a.w, c.eval(t.a))))
	case OFIsInf:
		r = b2u(math.IsInf(fbits(t.a.w, c.eval(t.a)), 0))
	case OFLt:
		r = b2u(fbits(t.a.w, c.eval(t.a)) < fbits(t.b.w, c.eval(t.b)))
	case OFLe:
		r = b2u(fbits(t.a.w, c.eval(t.a)) <= fbits(t.b.w, c.eval(t.b)))
	case OFEq:
		r = b2u(fbits(t.a.w, c.eval(t.a)) == fbits(t.b.w, c.eval(t.b)))
	case OF32to64:
		r = math.Float64bits(float64(math.Float32frombits(uint32(c.eval(t.a)))))
	default:
		panic(fmt.Sprintf("eval: op %d", t.op))
	}
	c.memo[t] = r
	return r
}

func maskb(w uint8) uint64 {
	if w == 0 {
		return 1
	}
	return mask(w)
}

// ---------- substitution of known equalities ----------

// Subst rewrites t replacing terms that are keys of known by constants, re-simplifying on the way.
func (ts *TermStore) Subst(t *Term, known map[*Term]uint64, memo map[*Term]*Term) *Term {
	if t.op == OConst {
		return t
	}
	if v, ok := known[t]; ok {
		return ts.Const(t.w, v)
	}
	if t.op == OVar {
		return t
	}
	if r, ok := memo[t]; ok {
		return r
	}
	var a, b, c *Term
	if t.a != nil {
		a = ts.Subst(t.a, known, memo)
	}
	if t.b != nil {
		b = ts.Subst(t.b, known, memo)
	}
	if t.c != nil {
		c = ts.Subst(t.c, known, memo)
	}
	var r *Term
	if a == t.a && b == t.b && c == t.c {
		r = t
	} else {
		r = ts.rebuild(t, a, b, c)
	}
	memo[t] = r
	return r
}

func (ts *TermStore) rebuild(t *Term, a, b, c *Term) *Term {
	switch t.op {
	case ONot:
		return ts.Not(a)
	case OAnd:
		return ts.And(a, b)
	case OOr:
		return ts.Or(a, b)
	case OEq:
		return ts.Eq(a, b)
	case OUlt, OUle, OSlt, OSle:
		return ts.cmp(t.op, a, b)
	case OIte:
		return ts.Ite(a, b, c)
	case OBvNot:
		return ts.BvNot(a)
	case OBvNeg:
		return ts.BvNeg(a)
	case OAdd, OSub, OMul, OUdiv, OUrem, OSdiv, OSrem, OBvAnd, OBvOr, OBvXor, OShl, OLshr, OAshr:
		return ts.Bin(t.op, a, b)
	case OExtract:
		return ts.Extract(a, int(t.k), t.k2)
	case OConcat:
		return ts.Concat(a, b)
	case OZext:
		return ts.Zext(a, t.w)
	case OSext:
		return ts.Sext(a, t.w)
	case OCtz:
		return ts.Ctz(a)
	case OFIsNaN:
		if a.op == OConst {
			return ts.FIsNaN(a)
		}
		return ts.FIsNaNTheory(a)
	case OFIsInf:
		return ts.mk(OFIsInf, 0, a, nil, nil, 0, 0, "")
	case OFLt, OFLe, OFEq:
		if a.op == OConst && b.op == OConst {
			return ts.FCmp(t.op, a, b)
		}
		return ts.FCmpTheory(t.op, a, b)
	case OF32to64:
		return ts.F32to64(a)
	}
	panic("rebuild")
}

// ---------- SMT-LIB printing ----------

func sortOf(w uint8) string {
	if w == 0 {
		return "Bool"
	}
	return fmt.Sprintf("(_ BitVec %d)", w)
}

func constLit(w uint8, v uint64) string {
	if w == 0 {
		if v != 0 {
			return "true"
		}
		return "false"
	}
	if w%4 == 0 {
		return fmt.Sprintf("#x%0*x", int(w)/4, v)
	}
	return fmt.Sprintf("#b%0*b", int(w), v)
}

func fpOf(w uint8, s string) string {
	if w == 32 {
		return "((_ to_fp 8 24) " + s + ")"
	}
	return "((_ to_fp 11 53) " + s + ")"
}

// smtRef returns the token by which t is referred to once defined.
func smtRef(t *Term) string {
	switch t.op {
	case OConst:
		return constLit(t.w, t.k)
	case OVar:
		return t.name
	}
	return fmt.Sprintf("t%d", t.id)
}

// smtBody prints one node in terms of references to its children.
func smtBody(t *Term) (string, error) {
	r := smtRef
	switch t.op {
	case ONot:
		return "(not " + r(t.a) + ")", nil
	case OAnd, OOr, OEq, OUlt, OUle, OSlt, OSle, OAdd, OSub, OMul, OUdiv, OUrem, OSdiv, OSrem, OBvAnd, OBvOr, OBvXor, OShl, OLshr, OAshr, OConcat:
		return "(" + opNames[t.op] + " " + r(t.a) + " " + r(t.b) + ")", nil
	case OIte:
		return "(ite " + r(t.a) + " " + r(t.b) + " " + r(t.c) + ")", nil
	case OBvNot, OBvNeg:
		return "(" + opNames[t.op] + " " + r(t.a) + ")", nil
	case OExtract:
		return fmt.Sprintf("((_ extract %d %d) %s)", t.k, t.k2, r(t.a)), nil
	case OZext:
		return fmt.Sprintf("((_ zero_extend %d) %s)", t.w-t.a.w, r(t.a)), nil
	case OSext:
		return fmt.Sprintf("((_ sign_extend %d) %s)", t.w-t.a.w, r(t.a)), nil
	case OFIsNaN:
		return "(fp.isNaN " + fpOf(t.a.w, r(t.a)) + ")", nil
	case OFIsInf:
		return "(fp.isInfinite " + fpOf(t.a.w, r(t.a)) + ")", nil
	case OFLt:
		return "(fp.lt " + fpOf(t.a.w, r(t.a)) + " " + fpOf(t.b.w, r(t.b)) + ")", nil
	case OFLe:
		return "(fp.leq " + fpOf(t.a.w, r(t.a)) + " " + fpOf(t.b.w, r(t.b)) + ")", nil
	case OFEq:
		return "(fp.eq " + fpOf(t.a.w, r(t.a)) + " " + fpOf(t.b.w, r(t.b)) + ")", nil
	case OCtz:
		// ctz as an ite chain over bit positions
		var sb strings.Builder
		w := int(t.w)
		for i := 0; i < w; i++ {
			fmt.Fprintf(&sb, "(ite (= ((_ extract %d %d) %s) #b1) %s ", i, i, r(t.a), constLit(t.w, uint64(i)))
		}
		sb.WriteString(constLit(t.w, uint64(w)))
		sb.WriteString(strings.Repeat(")", w))
		return sb.String(), nil
	case OF32to64:
		return "", fmt.Errorf("float32->float64 conversion consumed as bits (unsupported)")
	}
	return "", fmt.Errorf("smtBody: unsupported op %d", t.op)
}

func (t *Term) String() string {
	switch t.op {
	case OConst:
		return constLit(t.w, t.k)
	case OVar:
		return t.name
	}
	seen := map[*Term]bool{}
	var sb strings.Builder
	var rec func(x *Term, d int)
	rec = func(x *Term, d int) {
		if x.op == OConst || x.op == OVar {
			sb.WriteString(smtRef(x))
			return
		}
		if d > 6 || seen[x] {
			fmt.Fprintf(&sb, "t%d", x.id)
			return
		}
		seen[x] = true
		name := opNames[x.op]
		if name == "" {
			name = fmt.Sprintf("op%d", x.op)
		}
		if x.op == OExtract {
			name = fmt.Sprintf("extract[%d:%d]", x.k, x.k2)
		}
		sb.WriteString("(" + name)
		for _, ch := range []*Term{x.a, x.b, x.c} {
			if ch != nil {
				sb.WriteString(" ")
				rec(ch, d+1)
			}
		}
		sb.WriteString(")")
	}
	rec(t, 0)
	return sb.String()
}
