package main

// Values and the heap model.

import (
	"fmt"
	"go/types"

	"golang.org/x/tools/go/ssa"
)

type Value interface{}

// Scalars are *Term.

type Ptr struct{ c *Cell } // c == nil: nil pointer

// IdxPtr: pointer to arr.kids[idx] (descended by path) with a symbolic idx.
type IdxPtr struct {
	arr  *Cell
	off  int // constant offset added to idx (slice offset)
	n    int // number of addressable elements from off
	idx  *Term
	path []int
}

type SliceV struct {
	arr           *Cell // array cell; nil for a nil slice
	off, len, cap int
}

type StrV struct {
	arr      *Cell
	off, len int
}

type AggV struct {
	elems []Value
}

type IfaceV struct {
	typ types.Type // nil: nil interface
	v   Value
}

type FuncV struct {
	fn      *ssa.Function // nil and builtin=="" : nil func
	env     []Value
	builtin string
}

type TupleV []Value

type Object struct {
	id    int
	root  *Cell
	site  string
	owner int
	size  int64
	born  int // step count at allocation
}

type Cell struct {
	typ    types.Type
	val    Value
	kids   []*Cell
	parent *Cell
	idx    int
	obj    *Object
	view   *Cell // non-nil: this cell is a narrower little-endian scalar view of the low bytes of view
}

func isAggregate(t types.Type) bool {
	switch t.Underlying().(type) {
	case *types.Struct, *types.Array:
		return true
	}
	return false
}

func (p *Path) zero(t types.Type) Value {
	switch u := t.Underlying().(type) {
	case *types.Basic:
		switch {
		case u.Kind() == types.String:
			return StrV{}
		case u.Kind() == types.UnsafePointer:
			return Ptr{}
		case u.Info()&types.IsBoolean != 0:
			return p.ts.False
		case u.Info()&(types.IsInteger|types.IsFloat) != 0:
			return p.ts.Const(p.widthOf(t), 0)
		}
		if u.Kind() == types.UntypedNil {
			return Ptr{}
		}
		p.unsupported("zero of basic %v", t)
	case *types.Pointer:
		return Ptr{}
	case *types.Slice:
		return SliceV{}
	case *types.Struct:
		a := AggV{elems: make([]Value, u.NumFields())}
		for i := range a.elems {
			a.elems[i] = p.zero(u.Field(i).Type())
		}
		return a
	case *types.Array:
		n := int(u.Len())
		a := AggV{elems: make([]Value, n)}
		if n > 0 {
			z := p.zero(u.Elem())
			agg := isAggregate(u.Elem())
			for i := range a.elems {
				if agg {
					a.elems[i] = p.zero(u.Elem())
				} else {
					a.elems[i] = z
				}
			}
		}
		return a
	case *types.Interface:
		return IfaceV{}
	case *types.Signature:
		return FuncV{}
	case *types.Tuple:
		tv := make(TupleV, u.Len())
		for i := range tv {
			tv[i] = p.zero(u.At(i).Type())
		}
		return tv
	case *types.Map, *types.Chan:
		return Ptr{}
	}
	p.unsupported("zero of %v", t)
	return nil
}

func (p *Path) widthOf(t types.Type) uint8 {
	switch u := t.Underlying().(type) {
	case *types.Basic:
		switch u.Kind() {
		case types.Bool, types.UntypedBool:
			return 0
		case types.Int8, types.Uint8:
			return 8
		case types.Int16, types.Uint16:
			return 16
		case types.Int32, types.Uint32, types.Float32, types.UntypedRune:
			return 32
		case types.Int64, types.Uint64, types.Float64, types.UntypedInt, types.UntypedFloat:
			return 64
		case types.Int, types.Uint, types.Uintptr:
			return uint8(p.eng.wordBits)
		}
	}
	p.unsupported("widthOf %v", t)
	return 0
}

func isSigned(t types.Type) bool {
	if b, ok := t.Underlying().(*types.Basic); ok {
		return b.Info()&types.IsInteger != 0 && b.Info()&types.IsUnsigned == 0
	}
	return false
}

func isFloat(t types.Type) bool {
	if b, ok := t.Underlying().(*types.Basic); ok {
		return b.Info()&types.IsFloat != 0
	}
	return false
}

func isString(t types.Type) bool {
	if b, ok := t.Underlying().(*types.Basic); ok {
		return b.Info()&types.IsString != 0
	}
	return false
}

// newObject allocates a zero-valued object of type t.
func (p *Path) newObject(t types.Type, site string) *Cell {
	o := &Object{id: p.nextObj, site: site, owner: p.curOwner, born: p.steps}
	p.nextObj++
	o.root = p.newCell(t, o, nil, 0)
	o.size = p.eng.sizeof(t)
	p.objects = append(p.objects, o)
	return o.root
}

func (p *Path) newCell(t types.Type, o *Object, parent *Cell, idx int) *Cell {
	c := &Cell{typ: t, parent: parent, idx: idx, obj: o}
	switch u := t.Underlying().(type) {
	case *types.Struct:
		c.kids = make([]*Cell, u.NumFields())
		for i := range c.kids {
			c.kids[i] = p.newCell(u.Field(i).Type(), o, c, i)
		}
	case *types.Array:
		n := int(u.Len())
		c.kids = make([]*Cell, n)
		et := u.Elem()
		if !isAggregate(et) && n > 0 {
			z := p.zero(et)
			block := make([]Cell, n)
			for i := range c.kids {
				block[i] = Cell{typ: et, parent: c, idx: i, obj: o, val: z}
				c.kids[i] = &block[i]
			}
		} else {
			for i := range c.kids {
				c.kids[i] = p.newCell(et, o, c, i)
			}
		}
	default:
		c.val = p.zero(t)
	}
	return c
}

// newArray allocates a fresh array object [n]elem and returns its root cell.
func (p *Path) newArray(elem types.Type, n int, site string) *Cell {
	return p.newObject(types.NewArray(elem, int64(n)), site)
}

func (p *Path) load(c *Cell) Value {
	p.noteRead(c)
	return p.loadRaw(c)
}

func (p *Path) loadRaw(c *Cell) Value {
	if c.view != nil {
		t := c.view.val.(*Term)
		return p.ts.Extract(t, int(p.widthOf(c.typ))-1, 0)
	}
	if c.kids != nil || isAggregate(c.typ) {
		a := AggV{elems: make([]Value, len(c.kids))}
		for i, k := range c.kids {
			a.elems[i] = p.loadRaw(k)
		}
		return a
	}
	return c.val
}

func (p *Path) store(c *Cell, v Value) {
	p.noteWrite(c)
	p.storeRaw(c, v)
}

func (p *Path) storeRaw(c *Cell, v Value) {
	if c.view != nil {
		old := c.view.val.(*Term)
		w := int(p.widthOf(c.typ))
		c.view.val = p.ts.Concat(p.ts.Extract(old, int(old.w)-1, w), v.(*Term))
		return
	}
	if c.kids != nil || isAggregate(c.typ) {
		a, ok := v.(AggV)
		if !ok || len(a.elems) != len(c.kids) {
			p.unsupported("store aggregate shape mismatch into %v: %T", c.typ, v)
		}
		for i, k := range c.kids {
			p.storeRaw(k, a.elems[i])
		}
		return
	}
	if v == nil {
		p.unsupported("store of nil Value into %v", c.typ)
	}
	c.val = v
}

// cellOffset returns the byte offset of c inside its object.
func (p *Path) cellOffset(c *Cell) int64 {
	var off int64
	for c.parent != nil {
		par := c.parent
		switch u := par.typ.Underlying().(type) {
		case *types.Struct:
			off += p.eng.fieldOffset(u, c.idx)
		case *types.Array:
			off += int64(c.idx) * p.eng.sizeof(u.Elem())
		}
		c = par
	}
	return off
}

func (p *Path) ptrEqual(a, b Ptr) bool {
	if a.c == nil || b.c == nil {
		return a.c == nil && b.c == nil
	}
	if a.c == b.c {
		return true
	}
	if a.c.obj != b.c.obj {
		return false
	}
	return p.cellOffset(a.c) == p.cellOffset(b.c)
}

// valuesIdentical: structural identity (terms by pointer, pointers by cell).
func valuesIdentical(a, b Value) bool {
	switch x := a.(type) {
	case *Term:
		y, ok := b.(*Term)
		return ok && x == y
	case Ptr:
		y, ok := b.(Ptr)
		return ok && x.c == y.c
	case SliceV:
		y, ok := b.(SliceV)
		return ok && x == y
	case StrV:
		y, ok := b.(StrV)
		return ok && x == y
	case AggV:
		y, ok := b.(AggV)
		if !ok || len(x.elems) != len(y.elems) {
			return false
		}
		for i := range x.elems {
			if !valuesIdentical(x.elems[i], y.elems[i]) {
				return false
			}
		}
		return true
	case IfaceV:
		y, ok := b.(IfaceV)
		if !ok {
			return false
		}
		if x.typ == nil || y.typ == nil {
			return x.typ == nil && y.typ == nil
		}
		return types.Identical(x.typ, y.typ) && valuesIdentical(x.v, y.v)
	case FuncV:
		y, ok := b.(FuncV)
		if !ok || x.fn != y.fn || x.builtin != y.builtin || len(x.env) != len(y.env) {
			return false
		}
		for i := range x.env {
			if !valuesIdentical(x.env[i], y.env[i]) {
				return false
			}
		}
		return true
	case IdxPtr:
		return false
	case nil:
		return b == nil
	}
	return false
}

// skeletonIdentical compares only the non-scalar parts (pointers, slices, ...) of two values.
func skeletonIdentical(a, b Value) bool {
	switch x := a.(type) {
	case *Term:
		_, ok := b.(*Term)
		return ok
	case AggV:
		y, ok := b.(AggV)
		if !ok || len(x.elems) != len(y.elems) {
			return false
		}
		for i := range x.elems {
			if !skeletonIdentical(x.elems[i], y.elems[i]) {
				return false
			}
		}
		return true
	}
	return valuesIdentical(a, b)
}

func descend(c *Cell, path []int) *Cell {
	for _, i := range path {
		c = c.kids[i]
	}
	return c
}

func (p *Path) describe(v Value) string {
	switch x := v.(type) {
	case *Term:
		return x.String()
	case Ptr:
		if x.c == nil {
			return "nil"
		}
		return fmt.Sprintf("&obj%d(%v)", x.c.obj.id, x.c.typ)
	case SliceV:
		return fmt.Sprintf("slice(off=%d,len=%d,cap=%d)", x.off, x.len, x.cap)
	case StrV:
		return fmt.Sprintf("str(len=%d)", x.len)
	}
	return fmt.Sprintf("%T", v)
}
