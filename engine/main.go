package main

import (
	"encoding/json"
	"fmt"
	"os"
	"runtime/pprof"
	"sort"
	"strconv"
	"strings"
	"time"
)

func main() {
	if len(os.Args) < 2 {
		fmt.Fprintln(os.Stderr, "usage: artsym <check|run|selftest|replay> ...")
		os.Exit(2)
	}
	if pf := os.Getenv("VERIF_PROF"); pf != "" {
		f, _ := os.Create(pf)
		pprof.StartCPUProfile(f)
		defer pprof.StopCPUProfile()
	}
	switch os.Args[1] {
	case "check":
		// artsym check <Cnn> --tier quick|thorough
		if len(os.Args) < 3 {
			fmt.Fprintln(os.Stderr, "usage: artsym check <id> [--tier quick|thorough]")
			os.Exit(2)
		}
		tier := os.Getenv("VERIF_TIER")
		for i := 3; i < len(os.Args); i++ {
			if os.Args[i] == "--tier" && i+1 < len(os.Args) {
				tier = os.Args[i+1]
			}
		}
		if tier == "" {
			tier = "quick"
		}
		spec, ok := checkSpecs[os.Args[2]]
		if !ok {
			fmt.Fprintln(os.Stderr, "unknown check", os.Args[2])
			os.Exit(2)
		}
		os.Exit(runCheck(spec, tier))
	case "list":
		// artsym list <Cnn> [--tier t]: scenario counts per label (no exploration)
		tier := "quick"
		for i := 3; i < len(os.Args); i++ {
			if os.Args[i] == "--tier" && i+1 < len(os.Args) {
				tier = os.Args[i+1]
			}
		}
		spec := checkSpecs[os.Args[2]]
		eng, err := LoadEngine(spec.GoArch)
		if err != nil {
			fmt.Fprintln(os.Stderr, err)
			os.Exit(2)
		}
		c := &CheckRun{Spec: spec, Tier: tier, Eng: eng, Seed: 1}
		scns := spec.Scenarios(c)
		cnt := map[string]int{}
		for _, s := range scns {
			l := s.Label
			if i := strings.Index(l, " m="); i > 0 {
				l = l[:i]
			}
			cnt[l]++
		}
		var keys []string
		for k := range cnt {
			keys = append(keys, k)
		}
		sort.Strings(keys)
		for _, k := range keys {
			fmt.Printf("%6d %s\n", cnt[k], k)
		}
		fmt.Printf("%6d total\n", len(scns))
	case "replay":
		// artsym replay <file.json>: run a recorded counterexample natively against /repo's working tree
		b, err := os.ReadFile(os.Args[2])
		if err != nil {
			fmt.Fprintln(os.Stderr, err)
			os.Exit(2)
		}
		var rf struct {
			Property string      `json:"property"`
			Harness  string      `json:"harness"`
			Params   []int       `json:"params"`
			Tape     []TapeEntry `json:"tape"`
			Expect   struct {
				Kind string `json:"kind"`
				Tag  string `json:"tag"`
			} `json:"expect"`
		}
		if err := json.Unmarshal(b, &rf); err != nil {
			fmt.Fprintln(os.Stderr, err)
			os.Exit(2)
		}
		rp := NewReplayer("manual")
		res, err := rp.Run([]ReplayReq{{ID: 0, Harness: rf.Harness, Params: rf.Params, Tape: rf.Tape}}, "VERIF_STACK=1")
		if err != nil {
			fmt.Fprintln(os.Stderr, err)
			os.Exit(2)
		}
		r := res[0]
		fmt.Printf("native outcome: %s tag=%q %s\ntraces: %v\n", r.Outcome, r.Tag, r.Msg, r.Traces)
		if r.Outcome != "ok" {
			fmt.Printf("VIOLATION property=%s replay=%s\n", rf.Property, os.Args[2])
			os.Exit(1)
		}
		os.Exit(0)
	case "run":
		// artsym run <harness> [params...]
		eng, err := LoadEngine(os.Getenv("VERIF_GOARCH"))
		if err != nil {
			fmt.Fprintln(os.Stderr, "load:", err)
			os.Exit(2)
		}
		fmt.Printf("loaded in %v\n", eng.loadTime)
		scn := &Scenario{Harness: os.Args[2], Label: os.Args[2]}
		for _, a := range os.Args[3:] {
			v, _ := strconv.Atoi(a)
			scn.Params = append(scn.Params, v)
		}
		if os.Getenv("VERIF_NOSUM") == "" {
			eng.EstablishSummaries(16)
			for _, n := range eng.sumNotes {
				fmt.Println("summary:", n)
			}
		}
		ex := NewExplorer(eng, 16)
		if w := os.Getenv("VERIF_WORKERS"); w != "" {
			ex.workers, _ = strconv.Atoi(w)
		}
		t0 := time.Now()
		if err := ex.Run([]*Scenario{scn}); err != nil {
			fmt.Fprintln(os.Stderr, "run:", err)
			os.Exit(2)
		}
		fmt.Printf("paths=%d finished=%d killed=%d stopped=%d inconclusive=%d steps=%d in %v; queries=%d sat=%d unsat=%d solver=%v\n",
			scn.Paths, scn.Finished, scn.Killed, scn.Stopped, scn.Inconclusive, scn.Steps, time.Since(t0),
			gStats.Queries, gStats.Sat, gStats.Unsat, time.Duration(gStats.NanosIn))
		if os.Getenv("VERIF_QSITES") != "" {
			type kv struct {
				k string
				v int
			}
			var l []kv
			for k, v := range qSites {
				l = append(l, kv{k, v})
			}
			sort.Slice(l, func(i, j int) bool { return l[i].v > l[j].v })
			for i := 0; i < len(l) && i < 25; i++ {
				fmt.Printf("%6d %s\n", l[i].v, l[i].k)
			}
		}
		for _, m := range scn.IncMsgs {
			fmt.Println("INCONCLUSIVE:", m)
		}
		for _, v := range scn.Violations {
			fmt.Printf("VIOLATION kind=%s tag=%q where=%s tape=%v\n", v.Kind, v.Tag, v.Where, v.Tape)
		}
		for _, s := range scn.Samples {
			fmt.Printf("sample: dec=%v tape=%v traces=%v\n", s.Decisions, s.Tape, s.Traces)
		}
		if os.Getenv("VERIF_NOREPLAY") == "" {
			rp := NewReplayer("run")
			var reqs []ReplayReq
			for i, v := range scn.Violations {
				reqs = append(reqs, ReplayReq{ID: i, Harness: scn.Harness, Params: scn.Params, Tape: v.Tape})
			}
			for i, s := range scn.Samples {
				reqs = append(reqs, ReplayReq{ID: 1000 + i, Harness: scn.Harness, Params: scn.Params, Tape: s.Tape})
			}
			res, err := rp.Run(reqs)
			if err != nil {
				fmt.Println("replay error:", err)
				os.Exit(2)
			}
			fmt.Printf("replay binary built in %v\n", rp.buildT)
			for i, v := range scn.Violations {
				fmt.Printf("native[%d] expected %s/%q -> %s/%q %s\n", i, v.Kind, v.Tag, res[i].Outcome, res[i].Tag, res[i].Msg)
			}
			for i, s := range scn.Samples {
				r := res[1000+i]
				fmt.Printf("native sample[%d] -> %s traces equal=%v\n", i, r.Outcome, fmt.Sprint(r.Traces) == fmt.Sprint(s.Traces))
			}
		}
	default:
		fmt.Fprintln(os.Stderr, "unknown command", os.Args[1])
		os.Exit(2)
	}
}
