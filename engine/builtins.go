package main

// Builtins, library summaries, environment stubs and the vp* harness primitives.

import (
	"fmt"
	"go/types"
	"strings"

	"golang.org/x/tools/go/ssa"
)

func (p *Path) elemsOf(v Value) (arr *Cell, off, n int) {
	switch x := v.(type) {
	case SliceV:
		return x.arr, x.off, x.len
	case StrV:
		return x.arr, x.off, x.len
	}
	p.unsupported("elemsOf %T", v)
	return nil, 0, 0
}

func growCap(oldCap, needed int) int {
	newcap := oldCap
	doublecap := newcap + newcap
	if needed > doublecap {
		return needed
	}
	const threshold = 256
	if oldCap < threshold {
		if doublecap < needed {
			return needed
		}
		if doublecap == 0 {
			return needed
		}
		return doublecap
	}
	for newcap < needed {
		newcap += (newcap + 3*threshold) / 4
	}
	return newcap
}

func (p *Path) appendValues(s SliceV, et types.Type, n int, get func(i int) Value) SliceV {
	if n == 0 {
		return s
	}
	need := s.len + n
	if s.arr != nil && need <= s.cap {
		// in place
		for i := 0; i < n; i++ {
			p.store(s.arr.kids[s.off+s.len+i], get(i))
		}
		return SliceV{arr: s.arr, off: s.off, len: need, cap: s.cap}
	}
	nc := growCap(s.cap, need)
	if bt, ok := et.Underlying().(*types.Basic); ok && bt.Kind() == types.Uint8 {
		// malloc size classes for small byte slices (8,16,24,32,48,64,...): keep the first few exact
		for _, sc := range []int{8, 16, 24, 32, 48, 64, 80, 96, 112, 128} {
			if nc <= sc {
				nc = sc
				break
			}
		}
	}
	// read the appended values first (they may alias the old array)
	vals := make([]Value, n)
	for i := 0; i < n; i++ {
		vals[i] = get(i)
	}
	arr := p.newArray(et, nc, "append")
	for i := 0; i < s.len; i++ {
		p.storeRaw(arr.kids[i], p.load(s.arr.kids[s.off+i]))
	}
	for i := 0; i < n; i++ {
		p.storeRaw(arr.kids[s.len+i], vals[i])
	}
	return SliceV{arr: arr, off: 0, len: need, cap: nc}
}

func (p *Path) callBuiltin(name string, args []Value, cc *ssa.CallCommon) Value {
	switch name {
	case "len":
		switch x := args[0].(type) {
		case SliceV:
			return p.word(uint64(x.len))
		case StrV:
			return p.word(uint64(x.len))
		case Ptr: // pointer to array
			if x.c == nil {
				t := cc.Args[0].Type().Underlying().(*types.Pointer).Elem().Underlying().(*types.Array)
				return p.word(uint64(t.Len()))
			}
			return p.word(uint64(len(x.c.kids)))
		case AggV:
			return p.word(uint64(len(x.elems)))
		}
	case "cap":
		switch x := args[0].(type) {
		case SliceV:
			return p.word(uint64(x.cap))
		case Ptr:
			return p.word(uint64(len(x.c.kids)))
		case AggV:
			return p.word(uint64(len(x.elems)))
		}
	case "append":
		s := args[0].(SliceV)
		st := cc.Args[0].Type().Underlying().(*types.Slice)
		switch y := args[1].(type) {
		case SliceV:
			return p.appendValues(s, st.Elem(), y.len, func(i int) Value { return p.load(y.arr.kids[y.off+i]) })
		case StrV:
			return p.appendValues(s, st.Elem(), y.len, func(i int) Value { return p.load(y.arr.kids[y.off+i]) })
		}
	case "copy":
		d := args[0].(SliceV)
		sarr, soff, sn := p.elemsOf(args[1])
		n := d.len
		if sn < n {
			n = sn
		}
		tmp := make([]Value, n)
		for i := 0; i < n; i++ {
			tmp[i] = p.load(sarr.kids[soff+i])
		}
		for i := 0; i < n; i++ {
			p.store(d.arr.kids[d.off+i], tmp[i])
		}
		return p.word(uint64(n))
	case "clear":
		if s, ok := args[0].(SliceV); ok {
			if s.len > 0 {
				et := cc.Args[0].Type().Underlying().(*types.Slice).Elem()
				for i := 0; i < s.len; i++ {
					p.store(s.arr.kids[s.off+i], p.zero(et))
				}
			}
			return nil
		}
	case "min", "max":
		t := cc.Args[0].Type()
		res := args[0]
		for _, a := range args[1:] {
			x, y := res.(*Term), a.(*Term)
			var lt *Term
			switch {
			case isFloat(t):
				p.unsupported("min/max on floats")
			case isSigned(t):
				lt = p.ts.Slt(y, x)
			default:
				lt = p.ts.Ult(y, x)
			}
			if name == "max" {
				lt = p.ts.And(p.ts.Not(lt), p.ts.Ne(x, y))
			}
			res = p.ts.Ite(lt, y, x)
		}
		return res
	case "Slice": // unsafe.Slice(ptr, len)
		n := p.concreteInt(args[1], "unsafe.Slice len")
		var c *Cell
		switch x := args[0].(type) {
		case Ptr:
			c = x.c
		case IdxPtr:
			c = p.concretizeIdx(x)
		}
		if c == nil {
			if n == 0 {
				return SliceV{}
			}
			p.faultNow("unsafe.Slice: ptr is nil and len is not zero")
		}
		if n < 0 {
			p.faultNow("unsafe.Slice: len out of range")
		}
		par := c.parent
		if par == nil {
			if n == 0 {
				// the non-nil pointer SliceData gave for a zero-capacity slice (it points at the array object
				// itself): an empty slice at the end of that array
				if _, ok := c.typ.Underlying().(*types.Array); ok {
					return SliceV{arr: c, off: len(c.kids)}
				}
				return SliceV{}
			}
			// pointer to a lone variable: slice of length <= 1
			if n > 1 {
				p.disciplineEvent("unsafe.Slice beyond the object")
				p.faultNow("unsafe.Slice extends beyond the allocation")
			}
			p.unsupported("unsafe.Slice over a non-array object")
		}
		if _, ok := par.typ.Underlying().(*types.Array); !ok {
			p.unsupported("unsafe.Slice over a struct field")
		}
		if c.idx+n > len(par.kids) {
			p.disciplineEvent("unsafe.Slice beyond the backing array")
			p.faultNow("unsafe.Slice extends beyond the allocation")
		}
		return SliceV{arr: par, off: c.idx, len: n, cap: n}
	case "SliceData":
		s := args[0].(SliceV)
		if s.arr == nil {
			return Ptr{}
		}
		if s.off < len(s.arr.kids) {
			return Ptr{s.arr.kids[s.off]}
		}
		if s.cap == 0 {
			// zero-capacity slice at the end of its array: any non-nil pointer will do, it is never dereferenced
			return Ptr{s.arr}
		}
		p.unsupported("SliceData at array end")
	case "String": // unsafe.String
		n := p.concreteInt(args[1], "unsafe.String len")
		x := args[0].(Ptr)
		if x.c == nil || n == 0 {
			return StrV{}
		}
		return StrV{arr: x.c.parent, off: x.c.idx, len: n}
	case "StringData":
		s := args[0].(StrV)
		if s.arr == nil {
			return Ptr{}
		}
		return Ptr{s.arr.kids[s.off]}
	case "Sizeof":
		return p.word(uint64(p.eng.sizeof(cc.Args[0].Type())))
	case "Alignof":
		return p.word(uint64(p.eng.sizes.Alignof(cc.Args[0].Type())))
	case "panic":
		p.faultNow("panic")
	case "print", "println":
		return nil
	}
	p.unsupported("builtin %s(%T...)", name, args[0])
	return nil
}

// ---------------------------------------------------------------------------------------------

func fnKey(fn *ssa.Function) string {
	if o := fn.Origin(); o != nil {
		return o.String()
	}
	return fn.String()
}

// intrinsic intercepts harness primitives, library summaries and environment stubs.
func (p *Path) intrinsic(fn *ssa.Function, args []Value) (Value, bool) {
	name := fn.Name()
	if strings.HasPrefix(name, "vp") && fn.Pkg == p.eng.pkg {
		return p.vpPrimitive(name, fn, args), true
	}
	if fn.Pkg == p.eng.pkg {
		if fn.Blocks == nil {
			if af, ok := p.eng.asm[name]; ok {
				return p.runAsm(af, args), true
			}
		}
		return nil, false
	}
	if name == "init" && fn.Pkg != nil {
		return nil, true // initialisers of dependencies are not run (DESIGN §2.1)
	}
	key := fnKey(fn)
	switch key {
	case "bytes.Equal":
		a, b := args[0].(SliceV), args[1].(SliceV)
		return p.bytesEq(a.arr, a.off, a.len, b.arr, b.off, b.len), true
	case "bytes.Compare":
		a, b := args[0].(SliceV), args[1].(SliceV)
		return p.bytesCompare(a.arr, a.off, a.len, b.arr, b.off, b.len), true
	case "strings.Compare":
		a, b := args[0].(StrV), args[1].(StrV)
		return p.bytesCompare(a.arr, a.off, a.len, b.arr, b.off, b.len), true
	case "bytes.HasPrefix":
		a, b := args[0].(SliceV), args[1].(SliceV)
		if b.len > a.len {
			return p.ts.False, true
		}
		return p.bytesEq(a.arr, a.off, b.len, b.arr, b.off, b.len), true
	case "math/bits.TrailingZeros32", "math/bits.TrailingZeros64", "math/bits.TrailingZeros", "math/bits.TrailingZeros16", "math/bits.TrailingZeros8":
		x := args[0].(*Term)
		return p.toWordU(p.ts.Ctz(x)), true
	case "(encoding/binary.bigEndian).Uint16", "(encoding/binary.bigEndian).Uint32", "(encoding/binary.bigEndian).Uint64":
		n := map[string]int{"Uint16": 2, "Uint32": 4, "Uint64": 8}[fn.Name()]
		s := args[1].(SliceV)
		if s.len < n {
			p.faultNow("index out of range")
		}
		return p.chunkWord(s.arr, s.off, n), true
	case "(encoding/binary.bigEndian).PutUint16", "(encoding/binary.bigEndian).PutUint32", "(encoding/binary.bigEndian).PutUint64":
		n := map[string]int{"PutUint16": 2, "PutUint32": 4, "PutUint64": 8}[fn.Name()]
		s := args[1].(SliceV)
		if s.len < n {
			p.faultNow("index out of range")
		}
		v := args[2].(*Term)
		for i := 0; i < n; i++ {
			hi := 8*(n-i) - 1
			p.store(s.arr.kids[s.off+i], p.ts.Extract(v, hi, hi-7))
		}
		return nil, true
	case "math.IsNaN":
		return p.ts.FIsNaN(args[0].(*Term)), true
	case "math.IsInf":
		s := p.simp(args[1].(*Term))
		if s.op != OConst {
			p.unsupported("math.IsInf with symbolic sign")
		}
		return p.ts.FIsInf(args[0].(*Term), int(sext64(s.k, s.w))), true
	case "math.Float32bits", "math.Float64bits", "math.Float32frombits", "math.Float64frombits":
		return args[0], true
	case "(*sync.Pool).Get":
		return p.poolGet(args[0]), true
	case "(*sync.Pool).Put":
		p.poolPut(args[0], args[1])
		return nil, true
	case "(*golang.org/x/text/collate.Collator).Key":
		// Key drives the collator's internal iterator (c._iter): the call is a write to the Collator object, which
		// matters when two trees share one collator (C16)
		if cc := p.ptrCell(args[0]); cc != nil {
			p.noteWrite(cc)
		}
		return p.collKey(args[1], args[2]), true
	case "golang.org/x/text/collate.New":
		// the collator object itself is opaque: only Key is ever called on it (stubbed)
		c := p.newObject(fn.Signature.Results().At(0).Type().(*types.Pointer).Elem(), "collate.New")
		return Ptr{c}, true
	case "runtime.GC", "runtime.KeepAlive":
		return nil, true
	}
	if fn.Blocks == nil {
		p.unsupported("external function without summary: %s", key)
	}
	return nil, false
}

func (p *Path) toWordU(t *Term) *Term { return p.ts.Zext(t, uint8(p.eng.wordBits)) }

func (p *Path) callExternal(fn *ssa.Function, args []Value) Value {
	if r, ok := p.intrinsic(fn, args); ok {
		return r
	}
	p.unsupported("external function without body: %s", fn)
	return nil
}

// ---------------------------------------------------------------------------------------------
// sync.Pool model: per-pool LIFO (single P), or always-New in "fresh" mode.

func (p *Path) poolGet(recv Value) Value {
	c := p.ptrCell(recv)
	if c == nil {
		p.faultNow("nil pointer dereference")
	}
	p.obsPool("get", c)
	if !p.poolFresh {
		if l := p.pools[c]; len(l) > 0 {
			v := l[len(l)-1]
			p.pools[c] = l[:len(l)-1]
			p.obsPoolTransfer(v)
			return v
		}
	}
	// field New
	st := c.typ.Underlying().(*types.Struct)
	for i := 0; i < st.NumFields(); i++ {
		if st.Field(i).Name() == "New" {
			fv := c.kids[i].val.(FuncV)
			if fv.fn == nil {
				return IfaceV{}
			}
			return p.callValue(fv, nil)
		}
	}
	p.unsupported("sync.Pool without New field")
	return nil
}

func (p *Path) poolPut(recv Value, v Value) {
	c := p.ptrCell(recv)
	if c == nil {
		p.faultNow("nil pointer dereference")
	}
	p.obsPool("put", c)
	if iv, ok := v.(IfaceV); ok && iv.typ == nil {
		return
	}
	p.obsPoolRelease(v)
	if p.poolFresh {
		return
	}
	// the same object handed to the pool twice without a Get in between: the next two Gets (of any trees) would
	// receive one node — state shared between trees (C12). Reported as a fault; confirmed like a layout fault
	// by any misbehaviour of the native run on the same inputs (check.go).
	if iv, ok := v.(IfaceV); ok {
		if pt, ok := iv.v.(Ptr); ok && pt.c != nil {
			for _, e := range p.pools[c] {
				if ei, ok := e.(IfaceV); ok {
					if ep, ok := ei.v.(Ptr); ok && ep.c == pt.c {
						p.faultNow("pool double Put: an object that is already in the pool is put again")
					}
				}
			}
		}
	}
	p.pools[c] = append(p.pools[c], v)
}

// ---------------------------------------------------------------------------------------------
// collate.Collator.Key stub: out = F(str) from the scenario's table; buffer behaviour is real.

func (p *Path) collKey(bufV Value, strV Value) Value {
	s := strV.(SliceV)
	// identify the string: bytes must be concrete
	b := make([]byte, s.len)
	for i := 0; i < s.len; i++ {
		t := p.simp(p.byteAt(s.arr, s.off+i))
		if t.op != OConst {
			p.unsupported("collate.Key on a symbolic string")
		}
		b[i] = byte(t.k)
	}
	out, ok := p.collTable[string(b)]
	if !ok {
		p.unsupported("collate.Key: string %q not in the scenario's collation table", string(b))
	}
	bc := p.ptrCell(bufV)
	if bc == nil {
		p.faultNow("nil pointer dereference")
	}
	// Buffer{buf [4096]byte; key []byte}
	st := bc.typ.Underlying().(*types.Struct)
	var bufArr, keyCell *Cell
	for i := 0; i < st.NumFields(); i++ {
		switch st.Field(i).Name() {
		case "buf":
			bufArr = bc.kids[i]
		case "key":
			keyCell = bc.kids[i]
		}
	}
	if bufArr == nil || keyCell == nil {
		p.unsupported("collate.Buffer layout changed")
	}
	key := p.load(keyCell).(SliceV)
	if key.arr == nil { // Buffer.init
		key = SliceV{arr: bufArr, off: 0, len: 0, cap: len(bufArr.kids)}
	}
	kn := key.len
	nk := p.appendValues(key, types.Typ[types.Uint8], len(out), func(i int) Value { return out[i] })
	p.store(keyCell, nk)
	return SliceV{arr: nk.arr, off: nk.off + kn, len: nk.len - kn, cap: nk.cap - kn}
}

// ---------------------------------------------------------------------------------------------
// vp* primitives

func (p *Path) bytesArg(v Value) (*Cell, int, int) {
	switch x := v.(type) {
	case SliceV:
		return x.arr, x.off, x.len
	case StrV:
		return x.arr, x.off, x.len
	}
	p.unsupported("bytes argument expected, got %T", v)
	return nil, 0, 0
}

func (p *Path) vpPrimitive(name string, fn *ssa.Function, args []Value) Value {
	ts := p.ts
	switch name {
	case "vpU8":
		return p.nondet(8)
	case "vpU16":
		return p.nondet(16)
	case "vpU32", "vpF32":
		return p.nondet(32)
	case "vpU64", "vpF64":
		return p.nondet(64)
	case "vpBool":
		return ts.Ne(p.nondet(8), ts.Const(8, 0))
	case "vpBytes":
		n := p.concreteInt(args[0], "vpBytes n")
		arr := p.newArray(types.Typ[types.Uint8], n, "vpBytes")
		for i := 0; i < n; i++ {
			arr.kids[i].val = p.nondet(8)
		}
		return SliceV{arr: arr, off: 0, len: n, cap: n}
	case "vpString":
		n := p.concreteInt(args[0], "vpString n")
		if n == 0 {
			return StrV{}
		}
		arr := p.newArray(types.Typ[types.Uint8], n, "vpString")
		for i := 0; i < n; i++ {
			arr.kids[i].val = p.nondet(8)
		}
		return StrV{arr: arr, off: 0, len: n}
	case "vpParam":
		i := p.concreteInt(args[0], "vpParam index")
		if i < 0 || i >= len(p.scn.Params) {
			p.abort(abInconclusive, "vpParam(%d) out of range (%d params)", i, len(p.scn.Params))
		}
		return p.word(uint64(int64(p.scn.Params[i])))
	case "vpNParams":
		return p.word(uint64(len(p.scn.Params)))
	case "vpAssume":
		c := p.simp(args[0].(*Term))
		if c.IsTrue() {
			return nil
		}
		p.assumed++
		p.addPCOrKill(c)
		return nil
	case "vpAssert":
		tag, _ := p.concreteString(args[1])
		p.asserts++
		p.check(args[0].(*Term), "assert", tag)
		return nil
	case "vpFail":
		tag, _ := p.concreteString(args[0])
		if !p.replaying() {
			_, m := p.feasible(ts.True)
			if m == nil {
				m = Model{}
			}
			p.recordViolation("fail", tag, m)
		}
		p.abort(abStop, "vpFail %s", tag)
	case "vpTrace":
		tag, _ := p.concreteString(args[0])
		p.traces = append(p.traces, Trace{tag, args[1].(*Term)})
		return nil
	case "vpAnd":
		return ts.And(args[0].(*Term), args[1].(*Term))
	case "vpOr":
		return ts.Or(args[0].(*Term), args[1].(*Term))
	case "vpIte64", "vpIte8", "vpIte32", "vpIteInt":
		return ts.Ite(args[0].(*Term), args[1].(*Term), args[2].(*Term))
	case "vpIteBool":
		return ts.Ite(args[0].(*Term), args[1].(*Term), args[2].(*Term))
	case "vpB2U":
		return ts.Ite(args[0].(*Term), ts.Const(64, 1), ts.Const(64, 0))
	case "vpEqBytes":
		a, ao, an := p.bytesArg(args[0])
		b, bo, bn := p.bytesArg(args[1])
		return p.bytesEq(a, ao, an, b, bo, bn)
	case "vpLessBytes":
		a, ao, an := p.bytesArg(args[0])
		b, bo, bn := p.bytesArg(args[1])
		return p.bytesLess(a, ao, an, b, bo, bn, false)
	case "vpHasPrefix":
		a, ao, an := p.bytesArg(args[0])
		b, bo, bn := p.bytesArg(args[1])
		if bn > an {
			return ts.False
		}
		return p.bytesEq(a, ao, bn, b, bo, bn)
	case "vpIsConcrete":
		t := p.simp(args[0].(*Term))
		return ts.Bool(t.op == OConst)
	case "vpFpLt32", "vpFpLt64":
		return ts.FCmpTheory(OFLt, args[0].(*Term), args[1].(*Term))
	case "vpFpEq32", "vpFpEq64":
		return ts.FCmpTheory(OFEq, args[0].(*Term), args[1].(*Term))
	case "vpFpIsNaN32", "vpFpIsNaN64":
		return ts.FIsNaNTheory(args[0].(*Term))
	case "vpWord":
		list := p.concreteInt(args[0], "word list")
		i := p.concreteInt(args[1], "word index")
		w, err := p.eng.word(list, i)
		if err != nil {
			p.abort(abInconclusive, "vpWord: %v", err)
		}
		return p.strConst(w)
	case "vpRaceNative", "vpGCNative":
		return ts.False
	case "vpRunConcurrently":
		p.callValue(args[0].(FuncV), nil)
		p.callValue(args[1].(FuncV), nil)
		return nil
	case "vpRegister":
		return nil
	case "vpApi":
		p.apiCalls++
		return nil
	case "vpPoolMode":
		// 0: reuse (LIFO), 1: fresh (every Get calls New)
		p.poolFresh = p.concreteInt(args[0], "pool mode") == 1
		return nil
	case "vpCollDefine":
		// vpCollDefine(orig string, key []byte): registers F(orig) = key
		s, ok := p.concreteString(args[0])
		if !ok {
			p.unsupported("vpCollDefine with symbolic string")
		}
		k := args[1].(SliceV)
		out := make([]*Term, k.len)
		for i := range out {
			out[i] = p.byteAt(k.arr, k.off+i)
		}
		p.collTable[s] = out
		return nil
	}
	if r, ok := p.obsPrimitive(name, args); ok {
		return r
	}
	p.unsupported("unknown harness primitive %s", name)
	return nil
}

var _ = fmt.Sprintf
