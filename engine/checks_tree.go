package main

// Tree-level checks built on the history harness: C01 C02 C03 C04 C05 C06 C11 C14 C15.

import (
	"fmt"
	"strings"
)

var numericQuick = []int{kindU8, kindI64, kindF32}
var numericAll = []int{kindU8, kindU16, kindU32, kindU64, kindUint, kindI8, kindI16, kindI32, kindI64, kindInt, kindF32, kindF64}

func isAlphaKind(k int) bool { return k == kindAlphaB || k == kindAlphaS }

// every keeps each k-th element (offset by the seed so that successive seeds cover the rest).
func every(bs []histB, k int, seed int64) []histB {
	if k <= 1 {
		return bs
	}
	var out []histB
	for i, b := range bs {
		if (i+int(seed))%k == 0 {
			out = append(out, b)
		}
	}
	return out
}

// histFamilies: the generic template families of DESIGN §4 for one tier. light = the check's own probes
// fork heavily (Range, TopK, re-iteration, purity), so histories are thinned to keep the path count bounded.
func histFamilies(c *CheckRun, wantFan bool) []histB { return histFamiliesW(c, wantFan, false) }

func histFamiliesW(c *CheckRun, wantFan bool, light bool) []histB {
	mp := c.Eng.constInt("maxPrefixLen", 10)
	var out []histB
	if c.Tier == "quick" {
		out = append(out, fShort(kindAlphaB, 1, []int{0, 1, 2}, true)...)
		if light {
			out = append(out, fShort(kindAlphaB, 2, []int{0, 1, 2}, false)...)
			out = append(out, every(fShort(kindAlphaB, 3, []int{0, 1, 2}, false), 6, c.Seed)...)
			out = append(out, every(fShort(kindAlphaS, 2, []int{0, 1, 2}, false), 3, c.Seed)...)
			out = append(out, every(fLong(kindAlphaB, []int{mp, mp + 1}, false), 3, c.Seed)...)
			out = append(out, every(fLongDeep(kindAlphaB, []int{mp + 1}, false), 2, c.Seed)...)
			out = append(out, fNum(kindU8, 3)...)
			for _, k := range numericAll {
				// every key type has its own codec arm and (for the kind) its own tree copy; floats fork on
				// NaN/Inf tests per key, so the heavy-probe checks take a single symbolic float key
				if k == kindF32 || k == kindF64 {
					out = append(out, fNum(k, 1)...)
				} else {
					out = append(out, fNum(k, 2)...)
				}
			}
		} else {
			out = append(out, fShort(kindAlphaB, 2, []int{0, 1, 2}, true)...)
			out = append(out, fShort(kindAlphaB, 3, []int{0, 1, 2}, false)...)
			out = append(out, fShort(kindAlphaS, 2, []int{0, 1, 2}, false)...)
			out = append(out, fLong(kindAlphaB, []int{mp, mp + 1}, false)...)
			out = append(out, fLongDeep(kindAlphaB, []int{mp + 1}, false)...)
			for _, k := range numericQuick {
				out = append(out, fNum(k, 3)...)
			}
			for _, k := range numericAll {
				out = append(out, fNum(k, 2)...)
			}
		}
		if wantFan {
			out = append(out, fFan(c, kindAlphaB, 1, 1, false)...)
			out = append(out, fFanStem(c, kindAlphaB, false)...)
		}
		return out
	}
	thin := 1
	if light {
		thin = 3
	}
	out = append(out, fShort(kindAlphaB, 1, []int{0, 1, 2, 3}, true)...)
	out = append(out, fShort(kindAlphaB, 2, []int{0, 1, 2, 3}, !light)...)
	out = append(out, every(fShort(kindAlphaB, 3, []int{0, 1, 2, 3}, false), thin, c.Seed)...)
	out = append(out, every(fShort(kindAlphaB, 4, []int{0, 1, 2}, false), thin*2, c.Seed)...)
	out = append(out, every(fShort(kindAlphaS, 3, []int{0, 1, 2}, false), thin, c.Seed)...)
	out = append(out, every(fLong(kindAlphaB, []int{mp - 1, mp, mp + 1, mp + 2, 2 * mp}, !light), thin, c.Seed)...)
	out = append(out, every(fLong(kindAlphaS, []int{mp, mp + 1}, false), thin, c.Seed)...)
	out = append(out, every(fLongDeep(kindAlphaB, []int{mp, mp + 1, mp + 2}, true), thin, c.Seed)...)
	for _, k := range numericAll {
		if light {
			out = append(out, fNum(k, 2)...)
		} else {
			out = append(out, fNum(k, 3)...)
		}
	}
	for _, k := range []int{kindU8, kindI8, kindU16} {
		out = append(out, fNum(k, 4)...)
	}
	if !light {
		// (64-bit types stop at three keys: four symbolic float64 / int64 keys cost 6.5 / 4 solver-hours per check)
		for _, k := range []int{kindF32} {
			out = append(out, fNum(k, 4)...)
		}
	}
	if wantFan {
		out = append(out, fFan(c, kindAlphaB, 2, 3, true)...)
		out = append(out, fFan(c, kindAlphaS, 1, 1, false)...)
		out = append(out, fFanStem(c, kindAlphaB, true)...)
	}
	return out
}

// cheapBig drops the big fan-out bases that also carry a symbolic update (256-way enumeration), for checks
// whose probes fork heavily themselves.
func cheapBig(bs []histB) []histB {
	var out []histB
	for _, b := range bs {
		if (b.big && !b.noSym) || b.mid {
			continue
		}
		out = append(out, b)
	}
	return out
}

func withMask(bs []histB, mask int, extra func(b *histB) []int) []*Scenario {
	var out []*Scenario
	for _, b := range bs {
		b.mask = mask
		if mask&ckMap == 0 {
			b.probes = nil
		}
		if extra != nil {
			b.extra = extra(&b)
		}
		out = append(out, b.scn())
	}
	return out
}

// hugeScenarios: keys whose stored length crosses the width of an 8- or 16-bit field (harness/huge.go).
func hugeScenarios(c *CheckRun) []*Scenario {
	var out []*Scenario
	ns := []int{254, 65534}
	if c.Tier != "quick" {
		ns = []int{253, 254, 255, 256, 65533, 65534, 65535, 65536}
	}
	for _, n := range ns {
		out = append(out, &Scenario{Harness: "hHuge", Params: []int{n, 0}, Label: fmt.Sprintf("keys of %d bytes (length-field boundary)/alpha[]byte", n+1), MaxSteps: 200_000_000})
		if c.Tier != "quick" || n == 65534 {
			out = append(out, &Scenario{Harness: "hHuge", Params: []int{n, 1}, Label: fmt.Sprintf("keys of %d bytes (length-field boundary)/alpha string", n+1), MaxSteps: 200_000_000})
		}
	}
	return out
}

// k0Scenarios: the known class K0 (a terminated key that is a proper prefix of another terminated key).
func k0Scenarios(mask int) []*Scenario {
	var out []*Scenario
	for _, lens := range [][2]int{{0, 1}, {1, 2}, {1, 0}, {2, 1}} {
		b := histB{kind: kindAlphaB, mask: mask, kmode: 1, known: "K0", label: "K0 embedded-NUL prefix pair",
			ops: [][2]int{{opInsert, aSpec(0, lens[0])}, {opInsert, aSpec(0, lens[1])}}, probes: []int{aSpec(0, lens[0])}}
		if mask&ckMap == 0 {
			b.probes = nil
		}
		out = append(out, b.scn())
	}
	return out
}

var commonBounds = []string{
	"operation kinds and key lengths of a scenario are concrete; all key bytes / numeric key values / stored values / probe and bound arguments / counts are symbolic",
	"F-short: every Insert/Delete sequence of n ops over byte-string keys of length 0..L (first op an Insert); quick n<=3,L=2; thorough n<=3,L=3 and n=4,L=2",
	"F-long: two keys stem(p)+1 byte, one more symbolic op and probe over {same stem +0/1/2 bytes, stem with one symbolic byte at position 0, p/2, p-1, stem shortened by 1 or 2}; p in {maxPrefixLen, +1} quick; {-1,0,+1,+2, 2*maxPrefixLen} thorough",
	"F-num: every Insert/Delete pattern of 2 symbolic values for all 12 numeric types and of 3 for uint8 (quick); thorough: 3 for all 12 types and 4 for uint8, int8, uint16, float32",
	"F-fan (where used): one node with m concrete 1-byte siblings for m at every grow/shrink threshold (4,16,48 / 3,12,37 as read from the working tree's constants), then 1 (quick) or 2 (thorough) symbolic Insert/Delete and a symbolic probe; sibling bytes = {00,01,7f,80,fe,ff} plus seed-chosen fill",
	"F-fan additions: a node16 that was full and is shrunk to 2/6 children by deleting its largest bytes (stale lanes hold the removed maximum); all 256 byte values under one node (update-free base); F-fan-stem bases whose 5/17/49 siblings and the stem key are all deleted again; F-fan-kind (uint8, int8, uint16, float32; thorough int64; collation and compound with concrete encodings) incl. a node48 whose first-inserted children are deleted and, for uint16/int64/float32/collation/compound, the same fans below the root",
	"length-field boundaries (C01, C06, C15): two byte-string keys of 255 and 65535 bytes (thorough 254..257, 65534..65537), concrete stem, symbolic last byte: insert, overwrite, second insert, All, Minimum, failed and real Delete",
	"per-path unwinding assertion: 20M SSA instructions (200M for the 64 KiB keys); call depth 200; concretisation fan-out 300",
}

var commonOutside = []string{
	"histories with more symbolic operations than the templates, keys longer than stem+2 / L bytes (except the two length-field boundary lengths), keys of 2^32 bytes or more, fan-out base byte sets other than the enumerated ones",
	"collation and compound trees (covered by C08 / C09)",
	"byte-string key sets in known class K0 (one terminated key a proper prefix of another: needs an embedded 0x00) are excluded by assumption and evaluated separately",
	"node16_arm64.s (cannot be executed or replayed on this machine)",
}

var commonAssume = []string{
	"go/ssa (x/tools v0.29.0) IR is faithful to the source; the gc compiler implements it (mitigated by native replay of sampled passing paths and of every counterexample)",
	"sync.Pool modelled as per-pool LIFO (reuse) — every Get after a Put returns the released object",
	"searchNode4/insertPosNode4/searchNode16/insertPosNode16 are replaced by scalar specifications only after their equivalence has been proved for all inputs on the current tree in this run",
	"allocator: fresh object per allocation, no failure; pointers compare by identity",
	"z3 5.1.0 answers are correct",
}

const stateRule = "a state is a finished symbolic path (an equivalence class of concrete histories over all key bytes / values that take the same branches); a transition is one API call executed symbolically on such a path; scenarios enumerate operation kinds and key lengths exhaustively within the stated bounds"

func init() {
	register(&CheckSpec{
		ID: "C01", Level: "model_checking", Summaries: true, Rule: stateRule,
		Scenarios: func(c *CheckRun) []*Scenario {
			out := withMask(histFamilies(c, true), ckMap, nil)
			out = append(out, fanKinds(c, ckMap, c.Tier != "quick")...)
			out = append(out, k0Scenarios(ckMap|ckSize)...)
			out = append(out, hugeScenarios(c)...)
			return out
		},
		Bounds: commonBounds, Outside: commonOutside, Assumptions: commonAssume,
	})
	register(&CheckSpec{
		ID: "C02", Level: "model_checking", Summaries: true, Rule: stateRule,
		Scenarios: func(c *CheckRun) []*Scenario {
			out := withMask(histFamilies(c, true), ckIter, nil)
			out = append(out, fanKindsOpt(c, ckIter, c.Tier != "quick", true)...)
			out = append(out, k0Scenarios(ckIter)...)
			return out
		},
		Bounds: commonBounds, Outside: commonOutside, Assumptions: commonAssume,
	})
	register(&CheckSpec{
		ID: "C06", Level: "model_checking", Summaries: true, Rule: stateRule,
		Scenarios: func(c *CheckRun) []*Scenario {
			out := withMask(histFamilies(c, true), ckSize|ckIter, nil)
			out = append(out, fanKindsOpt(c, ckSize|ckIter, c.Tier != "quick", true)...)
			out = append(out, k0Scenarios(ckSize|ckIter)...)
			out = append(out, hugeScenarios(c)...)
			// the hand-written collation tree keeps its own counter on its own insertion/deletion paths
			// (collation.go): every collation template of C08, incl. the long shared paths, judged on Size/All
			out = append(out, collScenarios(c, ckSize|ckIter, nil, []int{14, 15, 16}, 0, "")...)
			return out
		},
		Bounds: append([]string{"collation trees (string, []byte, []rune keys; collator as an uninterpreted function, see C08): 2-3 insert, insert/delete/re-insert and overwrite templates with collation-key lengths 1..2 (thorough 1..3) and maxPrefixLen-1 / +2"}, commonBounds...), Outside: commonOutside, Assumptions: commonAssume,
	})
	register(&CheckSpec{
		ID: "C05", Level: "model_checking", Summaries: true, Rule: stateRule,
		Scenarios: func(c *CheckRun) []*Scenario {
			return append(withMask(cheapBig(histFamiliesW(c, true, true)), ckExt, nil), fanKindsOpt(c, ckExt, false, true)...)
		},
		Bounds: append([]string{"Minimum/Maximum and BottomK(n)/TopK(n) with a fully symbolic 64-bit n after every history"}, commonBounds...), Outside: commonOutside, Assumptions: commonAssume,
	})
	register(&CheckSpec{
		ID: "C11", Level: "model_checking", Summaries: true, Rule: stateRule,
		Scenarios: func(c *CheckRun) []*Scenario {
			out := append(withMask(histFamilies(c, true), ckShape, nil), fanKinds(c, ckShape, c.Tier != "quick")...)
			for _, s := range out {
				if strings.Contains(s.Label, "F-fan m=256 ") {
					s.Known = "K2" // only the counter assertion is attributed to the class (known_findings.json: assert)
				}
			}
			return out
		},
		Bounds: append([]string{"wellFormed (harness walker over the real node structures) asserted after every single operation"}, commonBounds...), Outside: commonOutside, Assumptions: commonAssume,
	})
	register(&CheckSpec{
		ID: "C03", Level: "model_checking", Summaries: true, Rule: stateRule,
		Scenarios: rangeScenarios,
		Bounds:    append([]string{"Range(a,b) with symbolic bounds of every key shape of the family; empty end bound on byte-string trees; targeted sibling-group templates"}, commonBounds...),
		Outside:   append([]string{"carved out by the property: NaN bounds, the pair (-0,+0), empty end with start above the maximum, collation trees"}, commonOutside...), Assumptions: commonAssume,
	})
	register(&CheckSpec{
		ID: "C04", Level: "model_checking", Summaries: true, Rule: stateRule,
		Scenarios: prefixScenarios,
		Bounds:    append([]string{"Prefix(p) with symbolic p of every key shape of the family, lengths 0..max+1"}, commonBounds...),
		Outside:   append([]string{"collation half: the collator is an uninterpreted function (see C08); real collation tables, contractions and ignorables are out of reach; prefixes of collation trees are the concrete strings a, ab and the empty string"}, commonOutside...), Assumptions: commonAssume,
	})
	register(&CheckSpec{
		ID: "C14", Level: "model_checking", Summaries: true, Rule: stateRule,
		Scenarios: reiterScenarios,
		Bounds:    append([]string{"each of All, Backward, Prefix, Range, TopK, BottomK: one complete pass, one pass abandoned at a symbolic position 0..255, two more complete passes over the same sequence value"}, commonBounds...),
		Outside:   commonOutside, Assumptions: commonAssume,
	})
	register(&CheckSpec{
		ID: "C15", Level: "model_checking", Summaries: true, Rule: stateRule,
		Scenarios: pureScenarios,
		Bounds:    append([]string{"snapshot of every heap cell reachable from (root,size) compared cell by cell around each of: Search; Minimum+Maximum+Size; All+Backward; Prefix; Range; TopK+BottomK; Delete(absent); Insert(present)"}, commonBounds...),
		Outside:   commonOutside, Assumptions: commonAssume,
	})
}

func numKeySpec(b *histB) int {
	if isAlphaKind(b.kind) {
		// reuse the shape of the scenario's last operation key (or its probe)
		if len(b.ops) > 0 {
			last := b.ops[len(b.ops)-1]
			if last[0] == opInsert || last[0] == opDelete {
				return last[1]
			}
		}
		return aSpec(0, 1)
	}
	return 0
}

func probeSpec(b *histB) int {
	if len(b.probes) > 0 {
		return b.probes[0]
	}
	return numKeySpec(b)
}

func rangeScenarios(c *CheckRun) []*Scenario {
	var base []histB
	for _, b := range cheapBig(histFamiliesW(c, true, true)) {
		if (b.kind == kindF32 || b.kind == kindF64) && len(b.ops) > 1 && c.Tier == "quick" {
			continue // two symbolic float keys plus two symbolic float bounds time the solver out; thorough tier only
		}
		if (b.kind == kindInt || b.kind == kindU64) && len(b.ops) > 1 && c.Tier == "quick" {
			continue // 64-bit keys with two symbolic bounds cost ~700 solver-seconds per type: quick keeps int64 and uint
		}
		base = append(base, b)
	}
	base = append(base, histB{kind: kindF32, ops: [][2]int{{opInsert, 0}}, label: "F-num n=1"}, histB{kind: kindF64, ops: [][2]int{{opInsert, 0}}, label: "F-num n=1"})
	i := 0
	out := withMask(base, ckRange, func(b *histB) []int {
		i++
		sa := probeSpec(b)
		sb := numKeySpec(b)
		if b.stem > 0 {
			// bounds that share the stem, so that the prune test reaches the fan-out node below it
			if i%2 == 0 {
				return []int{aSpec(b.stem, 1), cKeyStem(b.stem, 0xff) | 1<<30}
			}
			return []int{cKeyStemOnly(b.stem) | 1<<30, aSpec(b.stem, 1)}
		}
		if strings.Contains(b.label, "m=256 ") {
			return []int{cKey1(0x01) | 1<<30, cKey1(0xfe) | 1<<30} // 256 re-executions of 256 inserts otherwise
		}
		if b.big {
			// one symbolic bound, the other concrete (0x00 / 0xff)
			if i%2 == 0 {
				return []int{aSpec(0, 1), cKey1(0xff) | 1<<30}
			}
			return []int{cKey1(0x00) | 1<<30, aSpec(0, 1)}
		}
		if isAlphaKind(b.kind) && i%5 == 0 {
			return []int{sa, -1} // empty end bound
		}
		return []int{sa, sb}
	})
	for _, s := range out {
		if s.Params[len(s.Params)-1] == -1 {
			s.MayBeVacuous = true // "empty end with a start above the maximum" is carved out by assumption
		}
	}
	// a wide node whose children are inner nodes with a compressed path of their own: m siblings c, each with the
	// two keys c,'b',1 and c,'b',2 (one sibling is 'a'); bounds "ab"+symbolic byte share a prefix that reaches
	// below the wide node, so the prune test runs at the children's depth
	for _, m := range []int{17, 5, 49} {
		if m != 17 && c.Tier == "quick" {
			continue
		}
		out = append(out, histB{kind: kindAlphaB, mask: ckRange, ops: fanOfInner(c, m), extra: []int{aSpec(2, 1), aSpec(2, 1)}, big: true,
			label: fmt.Sprintf("fan of %d inner nodes with compressed paths", m)}.scn())
	}
	// empty trees, every kind
	kinds := append([]int{kindAlphaB, kindAlphaS}, numericQuick...)
	if c.Tier != "quick" {
		kinds = append([]int{kindAlphaB, kindAlphaS}, numericAll...)
	}
	for _, k := range kinds {
		sp := 0
		if isAlphaKind(k) {
			sp = aSpec(0, 2)
		}
		out = append(out, histB{kind: k, mask: ckRange, extra: []int{sp, sp}, label: "empty tree"}.scn())
		if isAlphaKind(k) {
			out = append(out, histB{kind: k, mask: ckRange, extra: []int{sp, -1}, label: "empty tree, empty end"}.scn())
		}
	}
	// targeted: an unrelated sibling subtree is descended before the subtree holding the range
	st := aSpec(3, 1)
	out = append(out, histB{kind: kindAlphaB, mask: ckRange, label: "sibling groups (2,2,stem3+1,stem3+1)",
		ops: [][2]int{{opInsert, aSpec(0, 2)}, {opInsert, aSpec(0, 2)}, {opInsert, st}, {opInsert, st}}, extra: []int{st, st}}.scn())
	mp := c.Eng.constInt("maxPrefixLen", 10)
	lg := aSpec(mp+1, 1)
	out = append(out, histB{kind: kindAlphaB, mask: ckRange, label: "sibling group before a long path",
		ops: [][2]int{{opInsert, aSpec(0, 2)}, {opInsert, aSpec(0, 2)}, {opInsert, lg}, {opInsert, lg}}, extra: []int{lg, lg}}.scn())
	for _, k := range []int{kindU16, kindI8} {
		out = append(out, histB{kind: k, mask: ckRange, label: "numeric n=3",
			ops: [][2]int{{opInsert, 0}, {opInsert, 0}, {opInsert, 0}}, extra: []int{0, 0}}.scn())
	}
	if c.Tier != "quick" {
		out = append(out, histB{kind: kindAlphaB, mask: ckRange, label: "sibling groups (2,2,4,4)",
			ops: [][2]int{{opInsert, aSpec(0, 2)}, {opInsert, aSpec(0, 2)}, {opInsert, aSpec(0, 4)}, {opInsert, aSpec(0, 4)}}, extra: []int{aSpec(0, 4), aSpec(0, 4)}}.scn())
		for _, k := range []int{kindU8, kindI8} {
			out = append(out, histB{kind: k, mask: ckRange, label: "numeric n=4",
				ops: [][2]int{{opInsert, 0}, {opInsert, 0}, {opInsert, 0}, {opInsert, 0}}, extra: []int{0, 0}}.scn())
		}
	}
	return out
}

func alphaOnly(bs []histB) []histB {
	var out []histB
	for _, b := range bs {
		if isAlphaKind(b.kind) {
			out = append(out, b)
		}
	}
	return out
}

// fanOfInner: m siblings c (one of them 'a'), each holding the two keys c,'b',1 and c,'b',2.
func fanOfInner(c *CheckRun, m int) [][2]int {
	var ops [][2]int
	sib := []int{'a'}
	for _, b := range fanBytes(m, c.Seed, 1) {
		if b != 'a' && len(sib) < m {
			sib = append(sib, b)
		}
	}
	for _, b := range sib {
		ops = append(ops, [2]int{opInsertC, 3<<24 | b<<16 | 'b'<<8 | 1}, [2]int{opInsertC, 3<<24 | b<<16 | 'b'<<8 | 2})
	}
	return ops
}

func prefixScenarios(c *CheckRun) []*Scenario {
	base := alphaOnly(cheapBig(histFamiliesW(c, true, true)))
	out := withMask(base, ckPrefix, func(b *histB) []int { return []int{probeSpec(b)} })
	// the update-free fan bases also with the empty prefix: the whole fan is yielded, so its order is judged
	var whole []histB
	for _, b := range base {
		if b.noSym {
			b.label += " (empty prefix)"
			whole = append(whole, b)
		}
	}
	out = append(out, withMask(whole, ckPrefix, func(b *histB) []int { return []int{aSpec(0, 0)} })...)
	mp := c.Eng.constInt("maxPrefixLen", 10)
	// targeted: two sibling groups under a long stem whose continuations look alike (DESIGN §7 row 5)
	for _, p := range []int{mp, mp + 1} {
		g := aSpec(p, 3)
		for _, ps := range []int{aSpec(p, 1), aSpec(p, 2), aSpec(p, 3), aSpec(p, 4), aSpec(p-1, 0)} {
			out = append(out, histB{kind: kindAlphaB, mask: ckPrefix, label: fmt.Sprintf("two groups under stem p=%d", p),
				ops: [][2]int{{opInsert, g}, {opInsert, g}, {opInsert, g}, {opInsert, g}}, extra: []int{ps}}.scn())
			if c.Tier == "quick" {
				break
			}
		}
	}
	// a wide node of inner nodes (see C03): prefixes that end at the wide node, inside a child's path, at a leaf
	for _, m := range []int{17, 49} {
		if m != 17 && c.Tier == "quick" {
			continue
		}
		for _, ps := range []int{aSpec(0, 1), aSpec(1, 1), aSpec(2, 1), aSpec(2, 0)} {
			out = append(out, histB{kind: kindAlphaB, mask: ckPrefix, ops: fanOfInner(c, m), extra: []int{ps}, big: true,
				label: fmt.Sprintf("fan of %d inner nodes with compressed paths", m)}.scn())
		}
	}
	// single key / empty tree, prefixes of every length
	for _, l := range []int{0, 1, 2, 3} {
		out = append(out, histB{kind: kindAlphaB, mask: ckPrefix, label: "single key", ops: [][2]int{{opInsert, aSpec(0, 2)}}, extra: []int{aSpec(0, l)}}.scn())
		out = append(out, histB{kind: kindAlphaB, mask: ckPrefix, label: "empty tree", extra: []int{aSpec(0, l)}}.scn())
	}
	// collation half of the property: Prefix(p) on collation trees for p in {"a", "ab", ""} over every
	// collation template of C08 (p is compared with the ORIGINAL bytes of the stored strings; the
	// collator is the uninterpreted function of C08, so nothing about contractions is assumed or needed)
	ckinds := []int{14}
	if c.Tier != "quick" {
		ckinds = []int{14, 15, 16}
	}
	for _, ps := range []int{cSpec(0, 1), cSpec(2, 2), cSpec(4, 1)} {
		ps := ps
		out = append(out, collScenarios(c, ckPrefix, func(b *histB) []int { return []int{ps} }, ckinds, 0, "")...)
	}
	return out
}

func reiterScenarios(c *CheckRun) []*Scenario {
	var out []*Scenario
	// collation trees (their Range/Prefix keep state in the shared collation buffer)
	i2 := 0
	out = append(out, collScenarios(c, ckReiter, func(b *histB) []int {
		i2++
		return []int{[]int{3, 0, 2, 1, 4, 5}[i2%6], probeSpec(b), cSpec(1, 2)}
	}, []int{14}, 0, "")...)
	// two sibling groups with compressed paths and 4-byte collation keys, Range over them, re-iterated after
	// other read-only calls reused the collation buffer
	{
		shaped := 1 << 12 // "k?x?"-shaped collation keys; the thorough tier also runs fully symbolic 4-byte keys
		for _, fl := range []int{shaped, 0} {
			if fl == 0 && c.Tier == "quick" {
				continue
			}
			var ops [][2]int
			for u := 0; u < 4; u++ {
				ops = append(ops, [2]int{opInsert, cSpec(u, 4) | fl})
			}
			b := histB{kind: 14, mask: ckReiter, ops: ops, extra: []int{3, cSpec(4, 4) | fl, cSpec(5, 4) | fl}, label: "coll sibling groups, Range re-iterated"}
			s := b.scn()
			s.Harness = "hColl"
			out = append(out, s)
		}
	}
	// Prefix / Range sequences re-iterated over self-similar key sets (the node reached by the prefix has a child
	// under the prefix's own first byte: aa, ab, b with Prefix(a); aba, abb, ac, b with Prefix(ab)): a sequence that
	// redoes its subtree selection from where the first pass ended yields less the second time
	for ti, t := range [][]int{{2, 2, 1, 1}, {3, 3, 2, 1, 2}, {2, 2, 2, 1, 1}} {
		if ti > 0 && c.Tier == "quick" {
			break // the four-key sets cost ~10^4 paths each
		}
		var ops [][2]int
		for _, l := range t[:len(t)-1] {
			ops = append(ops, [2]int{opInsert, aSpec(0, l)})
		}
		pl := t[len(t)-1]
		for _, m := range []int{2, 3} {
			out = append(out, histB{kind: kindAlphaB, mask: ckReiter, ops: ops, extra: []int{m, aSpec(0, pl), aSpec(0, pl)}, label: "self-similar keys, sequence re-iterated"}.scn())
		}
	}
	base := histFamiliesW(c, false, true)
	i := 0
	for _, b := range base {
		methods := []int{0, 1, 3, 4, 5}
		if isAlphaKind(b.kind) {
			methods = []int{0, 1, 2, 3, 4, 5}
		}
		var pick []int
		if c.Tier == "quick" {
			pick = []int{methods[i%len(methods)]}
			i++
		} else {
			pick = methods
		}
		for _, m := range pick {
			bb := b
			bb.mask = ckReiter
			bb.probes = nil
			bb.extra = []int{m, probeSpec(&b), numKeySpec(&b)}
			out = append(out, bb.scn())
		}
	}
	return out
}

func pureScenarios(c *CheckRun) []*Scenario {
	var out []*Scenario
	base := histFamiliesW(c, true, true)
	if c.Tier == "quick" {
		var thin []histB
		for j, b := range base {
			if len(b.ops) < 3 || b.big || j%2 == int(c.Seed)%2 {
				thin = append(thin, b)
			}
		}
		base = thin
	}
	i := 0
	for _, b := range base {
		whichs := []int{0, 1, 2, 4, 5, 6, 7}
		if isAlphaKind(b.kind) {
			whichs = []int{0, 1, 2, 3, 4, 5, 6, 7}
		}
		if b.big {
			whichs = []int{0, 1, 2, 3, 6, 7}
		}
		var pick []int
		if c.Tier == "quick" {
			pick = []int{whichs[i%len(whichs)]}
			i++
		} else if len(b.ops) <= 2 || b.big {
			pick = whichs // small histories and the wide concrete bases meet every method
		} else {
			// three methods per template, rotating, so that every method meets every family and every
			// template shape over the set (all eight per template cost ~6 h for this one check)
			n := len(whichs)
			pick = []int{whichs[i%n], whichs[(i+3)%n], whichs[(i+5)%n]}
			i++
		}
		for _, w := range pick {
			bb := b
			bb.mask = ckPure
			bb.probes = nil
			spec := probeSpec(&b)
			if w == 7 {
				// Insert of a present key: take the shape of a key the history inserts
				for _, o := range b.ops {
					if o[0] == opInsert {
						spec = o[1]
					} else if o[0] == opInsertC {
						spec = o[1] | 1<<30
					}
				}
			}
			bb.extra = []int{w, spec, numKeySpec(&b)}
			s := bb.scn()
			if w >= 6 {
				s.MayBeVacuous = true // needs an absent / a present key of that shape
			}
			out = append(out, s)
		}
	}
	// targeted: no-op Delete / Search / present-key Insert with a key that differs from a stored one only in
	// the part of a long compressed path that is not kept inline
	mp := c.Eng.constInt("maxPrefixLen", 10)
	for _, p := range []int{mp + 1, mp + 3} {
		base := [][2]int{{opInsert, aSpec(p, 1)}, {opInsert, aSpec(p, 1)}}
		for _, pos := range []int{mp, p - 1, 0, mp - 1} {
			for _, w := range []int{6, 0, 3} {
				s := histB{kind: kindAlphaB, mask: ckPure, ops: base, extra: []int{w, aSpecMut(p, 1, pos), 0}, label: fmt.Sprintf("long path p=%d, key differing at %d", p, pos)}.scn()
				s.MayBeVacuous = true
				out = append(out, s)
			}
		}
		s := histB{kind: kindAlphaB, mask: ckPure, ops: base, extra: []int{7, aSpec(p, 1), 0}, label: fmt.Sprintf("long path p=%d, overwrite", p)}.scn()
		s.MayBeVacuous = true
		out = append(out, s)
	}
	// an Insert of a present key of 255 / 65535 bytes changes nothing but the value (length fields must not truncate)
	out = append(out, hugeScenarios(c)...)
	return out
}
