package main

// C07 (codecs), C08 (collation), C09 (compound), C10 (nodes), C12/C16 (two trees), C13 (aliasing).

import (
	"fmt"
	"sort"
	"strings"
)

func simple(h, label string, params ...int) *Scenario {
	return &Scenario{Harness: h, Params: params, Label: label}
}

// collation key spec: universe index | F length << 4
func cSpec(u, flen int) int { return u | flen<<4 }

func collTemplates(c *CheckRun, kind int) []histB {
	var out []histB
	lens := []int{1, 2, 3}
	if c.Tier == "quick" {
		lens = []int{1, 2}
	}
	// two and three distinct strings with every combination of collation-key lengths; ops over them
	for _, l0 := range lens {
		for _, l1 := range lens {
			k0, k1 := cSpec(0, l0), cSpec(3, l1) // "a", "é"
			out = append(out, histB{kind: kind, ops: [][2]int{{opInsert, k0}, {opInsert, k1}}, probes: []int{k0}, label: "coll 2 keys"})
			out = append(out, histB{kind: kind, ops: [][2]int{{opInsert, k0}, {opInsert, k1}, {opDelete, k0}}, probes: []int{k1}, label: "coll ins ins del"})
			out = append(out, histB{kind: kind, ops: [][2]int{{opInsert, k0}, {opDelete, k0}, {opInsert, k1}}, probes: []int{k0}, label: "coll ins del ins"})
			out = append(out, histB{kind: kind, ops: [][2]int{{opInsert, k0}, {opInsert, k0}, {opDelete, k1}}, probes: []int{k0}, label: "coll overwrite"})
			out = append(out, histB{kind: kind, ops: [][2]int{{opInsert, k1}, {opInsert, k0}, {opInsert, k1}}, probes: []int{k1}, label: "coll overwrite of a multi-byte key"})
			// a probed / deleted string that is absent but collates like a stored one (canonically equivalent spelling)
			out = append(out, histB{kind: kind, ops: [][2]int{{opInsert, k0}, {opInsert, k1}, {opDelete, cSpec(6, l1)}}, probes: []int{cSpec(6, l1)}, label: "coll absent look-alike"})
			for _, l2 := range lens {
				k2 := cSpec(2, l2+1) // "ab"
				out = append(out, histB{kind: kind, ops: [][2]int{{opInsert, k0}, {opInsert, k1}, {opInsert, k2}}, probes: []int{cSpec(4, 2)}, label: "coll 3 keys"})
				if c.Tier != "quick" {
					out = append(out, histB{kind: kind, ops: [][2]int{{opInsert, k0}, {opInsert, k1}, {opInsert, k2}, {opDelete, k1}}, probes: []int{k1}, label: "coll 3 keys + delete"})
					out = append(out, histB{kind: kind, ops: [][2]int{{opInsert, k0}, {opInsert, k1}, {opInsert, k2}, {opInsert, cSpec(4, 2)}}, probes: []int{k2}, label: "coll 4 keys"})
				}
			}
		}
	}
	// keys that share a long prefix and differ late ("same primary, different accent/case"): F lengths 12 and 13
	mp := c.Eng.constInt("maxPrefixLen", 10)
	for _, L := range []int{mp - 1, mp + 2} {
		k0, k1, k2 := cSpec(0, L), cSpec(6, L), cSpec(7, L+1) // "a", "á", "B"
		out = append(out, histB{kind: kind, ops: [][2]int{{opInsert, k0}, {opInsert, k1}, {opInsert, k2}}, probes: []int{k1}, label: fmt.Sprintf("coll long keys L=%d", L)})
		out = append(out, histB{kind: kind, ops: [][2]int{{opInsert, k0}, {opInsert, k1}, {opDelete, k0}}, probes: []int{cSpec(1, L)}, label: fmt.Sprintf("coll long keys L=%d", L)})
	}
	return out
}

func collScenarios(c *CheckRun, mask int, extra func(b *histB) []int, kinds []int, kmode int, known string) []*Scenario {
	var out []*Scenario
	for _, k := range kinds {
		for _, b := range collTemplates(c, k) {
			b.mask = mask
			b.kmode = kmode
			b.known = known
			if extra != nil {
				b.extra = extra(&b)
			}
			s := b.scn()
			s.Harness = "hColl"
			out = append(out, s)
		}
	}
	return out
}

func tableTemplates(c *CheckRun) []histB {
	var out []histB
	lens := []int{1, 2}
	if c.Tier != "quick" {
		lens = []int{1, 2, 3, 5}
	}
	for _, l0 := range lens {
		for _, l1 := range lens {
			k0, k1 := cSpec(0, l0), cSpec(1, l1)
			out = append(out, histB{kind: 17, ops: [][2]int{{opInsert, k0}, {opInsert, k1}}, probes: []int{k0}, label: "table 2 keys"})
			out = append(out, histB{kind: 17, ops: [][2]int{{opInsert, k0}, {opInsert, k1}, {opDelete, k0}}, probes: []int{cSpec(2, l0)}, label: "table ins ins del"})
			for _, l2 := range lens {
				k2 := cSpec(2, l2+1)
				out = append(out, histB{kind: 17, ops: [][2]int{{opInsert, k0}, {opInsert, k1}, {opInsert, k2}}, probes: []int{cSpec(3, l1)}, label: "table 3 keys"})
				out = append(out, histB{kind: 17, ops: [][2]int{{opInsert, k0}, {opInsert, k1}, {opInsert, k2}, {opDelete, k1}}, probes: []int{k1}, label: "table 3 keys + delete"})
			}
		}
	}
	mp := c.Eng.constInt("maxPrefixLen", 10)
	k0, k1, k2 := cSpec(0, mp+2), cSpec(1, mp+2), cSpec(2, mp+3)
	out = append(out, histB{kind: 17, ops: [][2]int{{opInsert, k0}, {opInsert, k1}, {opInsert, k2}}, probes: []int{k1}, label: "table long encodings"})
	// four stemmed 14-byte encodings: a branch at byte 0, long shared runs, late divergence
	st := func(id int) int { return id | 1<<12 }
	out = append(out, histB{kind: 17, ops: [][2]int{{opInsert, st(0)}, {opInsert, st(1)}, {opInsert, st(2)}, {opInsert, st(3)}}, probes: []int{st(0)}, label: "table stemmed 14-byte encodings"})
	out = append(out, histB{kind: 17, ops: [][2]int{{opInsert, st(0)}, {opInsert, st(1)}, {opInsert, st(2)}, {opDelete, st(1)}}, probes: []int{st(2)}, label: "table stemmed 14-byte encodings"})
	// schema codec uint16 ‖ string ‖ 00
	for _, seq := range opSeqs(2, []int{0, 1, 2}, true) {
		out = append(out, histB{kind: 18, ops: seq, probes: []int{1}, label: "schema uint16+string n=2"})
	}
	for i, seq := range opSeqs(3, []int{0, 1}, true) {
		if c.Tier == "quick" {
			continue // three symbolic (uint16,string) keys with Range bounds time the solver out under load; thorough only
		}
		_ = i
		out = append(out, histB{kind: 18, ops: seq, probes: []int{1}, label: "schema uint16+string n=3"})
	}
	return out
}

// fanKindsOf: the wide-node bases of F-fan-kind for the kinds whose label carries the given marker.
func fanKindsOf(c *CheckRun, mask int, marker string) []*Scenario {
	var out []*Scenario
	for _, s := range fanKindsOpt(c, mask, c.Tier != "quick", true) {
		if strings.Contains(s.Label, marker) {
			out = append(out, s)
		}
	}
	return out
}

func compoundScenarios(c *CheckRun) []*Scenario {
	var out []*Scenario
	for i, b := range tableTemplates(c) {
		// rotate the assertion families so that every family meets every template shape over the set
		masks := []int{ckMap | ckSize | ckIter, ckExt, ckRange, ckShape | ckSize}
		if c.Tier != "quick" {
			masks = append(masks, ckReiter, ckPure)
		}
		var pick []int
		if c.Tier == "quick" {
			pick = []int{masks[0], masks[1+i%3]}
		} else {
			pick = masks
		}
		for _, m := range pick {
			bb := b
			bb.mask = m
			if m&ckMap == 0 {
				bb.probes = nil
			}
			ps := probeSpec(&b)
			last := b.ops[len(b.ops)-1][1]
			switch {
			case m&ckRange != 0:
				bb.extra = []int{ps, last}
			case m&ckReiter != 0:
				bb.extra = []int{[]int{0, 1, 3, 4, 5}[i%5], ps, last}
			case m&ckPure != 0:
				w := []int{0, 1, 2, 4, 5, 6, 7}[i%7]
				if w == 7 {
					ps = b.ops[0][1] // "Insert of a present key" needs a key the history stored (the probe spec names a new one)
				}
				bb.extra = []int{w, ps, last}
			}
			s := bb.scn()
			s.Harness = "hCompound"
			if m&ckPure != 0 {
				s.MayBeVacuous = true // e.g. "Insert of a present key" when the template deleted that key again
			}
			out = append(out, s)
		}
	}
	return out
}

// NOT ENABLED (round 10): this family did not finish within a 300 s cap on a loaded machine and there was
// no time left to find the slow member, so C12 does not run it; the emptied-tree clause on the numeric,
// compound and collation implementations stays with C01/C06/C08 (ins-del-ins templates), see DESIGN §10.
// emptiedScenarios (C12, second clause): every tree implementation is emptied by deletions and used again.
// All keys are symbolic (numeric) or symbolic-byte shapes (byte-string, codec tables, collation keys), so
// the paths where the deleted keys equal the inserted ones are the emptied-tree histories; the others
// come for free. Everything is compared with the reference map, i.e. with a fresh tree.
func emptiedScenarios(c *CheckRun) []*Scenario {
	var out []*Scenario
	mask := ckMap | ckSize | ckIter | ckShape
	seqs := func(s0, s1, s2 int) [][][2]int {
		return [][][2]int{
			{{opInsert, s0}, {opDelete, s0}, {opInsert, s1}},
			{{opInsert, s0}, {opInsert, s1}, {opDelete, s1}, {opDelete, s0}, {opInsert, s2}},
		}
	}
	kinds := []int{kindU16, kindI16, kindF32}
	if c.Tier != "quick" {
		kinds = numericAll
	}
	for _, k := range kinds {
		for _, seq := range seqs(0, 0, 0) {
			out = append(out, histB{kind: k, mask: mask, ops: seq, probes: []int{0}, label: "emptied by deletion, used again"}.scn())
		}
	}
	for _, k := range []int{kindAlphaB, kindAlphaS} {
		for _, seq := range seqs(aSpec(0, 1), aSpec(0, 2), aSpec(0, 1)) {
			out = append(out, histB{kind: k, mask: mask, ops: seq, probes: []int{aSpec(0, 2)}, label: "emptied by deletion, used again"}.scn())
		}
	}
	for _, seq := range seqs(cSpec(0, 1), cSpec(1, 2), cSpec(2, 2)) {
		s := histB{kind: 17, mask: mask, ops: seq, probes: []int{cSpec(1, 2)}, label: "emptied by deletion, used again"}.scn()
		s.Harness = "hCompound"
		out = append(out, s)
	}
	for _, k := range []int{14, 16} {
		for _, seq := range seqs(cSpec(0, 1), cSpec(3, 2), cSpec(2, 2)) {
			s := histB{kind: k, mask: mask, ops: seq, probes: []int{cSpec(3, 2)}, label: "emptied by deletion, used again"}.scn()
			s.Harness = "hColl"
			out = append(out, s)
		}
	}
	return out
}

// ---- C10 ----------------------------------------------------------------------------------------

func nodeScenarios(c *CheckRun) []*Scenario {
	var out []*Scenario
	ns := func(s *Scenario) *Scenario { s.NoSummaries = true; return s }
	// (a) primitives, full width
	for _, sp := range summaryPairs {
		out = append(out, ns(simple(sp.harness, "primitive "+sp.real+" == scalar scan", 255)))
	}
	for pos := 0; pos <= 4; pos++ {
		out = append(out, ns(simple("hWordOps", "node4 word helpers", pos)))
	}
	// (b) node4 / node16: one step from an arbitrary Inv-state
	for n := 0; n <= 4; n++ {
		for op := 0; op <= 2; op++ {
			if op == 1 && n < 2 {
				continue
			}
			for stale := 0; stale <= 1; stale++ {
				for _, plen := range []int{0, 3} {
					out = append(out, ns(simple("hNode4Step", "node4 inductive step", n, op, stale, plen, 0, 0)))
				}
			}
		}
	}
	mp := c.Eng.constInt("maxPrefixLen", 10)
	for _, plen := range []int{0, 3, mp - 1, mp, mp + 2} {
		for _, cplen := range []int{0, 4, mp + 1} {
			out = append(out, ns(simple("hNode4Step", "node4 collapse into an inner child (path merge)", 2, 1, 1, plen, 1, cplen)))
		}
	}
	for n := 0; n <= 16; n++ {
		for op := 0; op <= 2; op++ {
			if op == 1 && n < 4 {
				continue // node16 holds at least 4 children at rest... removal from fewer is unreachable
			}
			if op == 0 && n == 16 {
				continue // 16 -> 48 growth is covered by the bounded bases below (a fully symbolic 256-entry index is out of reach)
			}
			for stale := 0; stale <= 1; stale++ {
				if c.Tier == "quick" && stale == 0 && n%4 != 0 {
					continue
				}
				out = append(out, ns(simple("hNode16Step", "node16 inductive step", n, op, stale)))
			}
		}
	}
	// (c) node48 / node256 and the class transitions, bounded bases
	variants := 1
	if c.Tier != "quick" {
		variants = 4
	}
	for _, sh := range fanShapes(c.Eng, true) {
		if sh.m < 2 {
			continue
		}
		for v := 0; v < variants; v++ {
			if sh.low != 0 {
				continue
			}
			tot := sh.m
			if sh.from > tot {
				tot = sh.from
			}
			bs := fanBytes(tot, c.Seed, v)
			for op := 0; op <= 2; op++ {
				if op == 0 && sh.m >= 256 {
					continue // no byte is left to add to a node that holds all 256
				}
				pmode := 0
				if op != 2 && (sh.m > 17 || sh.from > 17) {
					pmode = 1 // a symbolic update of a 48/256-way node is already a 256-way enumeration
				}
				p := append([]int{sh.m, sh.from, op, pmode}, bs...)
				out = append(out, ns(simple("hNodeBase", fmt.Sprintf("base node m=%d from=%d v=%d", sh.m, sh.from, v), p...)))
			}
		}
	}
	return out
}

// ---- C12 / C16 ------------------------------------------------------------------------------------

// twoTemplates: tree A releases a node of class cls (grow past it, shrink back), tree B then acquires one.
func twoTemplates(c *CheckRun, pool int) []*Scenario {
	var out []*Scenario
	type cl struct{ grow, shrink int }
	classes := map[string]cl{"node4": {2, 1}, "node16": {5, 3}, "node48": {17, 12}, "node256": {49, 37}}
	kindsB := []int{kindU8}
	if c.Tier != "quick" {
		kindsB = []int{kindU8, kindAlphaS, kindI8, kindF32}
	}
	for _, name := range []string{"node4", "node16", "node48", "node256"} {
		cls := classes[name]
		for _, kb := range kindsB {
			bs := fanBytes(cls.grow, c.Seed, 0)
			for _, keep := range []bool{false, true} {
				var ops [][3]int
				for _, b := range bs {
					ops = append(ops, [3]int{0, opInsertC, cKey1(b)})
				}
				if !keep {
					for _, b := range bs[cls.shrink:] {
						ops = append(ops, [3]int{0, opDeleteC, cKey1(b)})
					}
				}
				conc := func(b int) int {
					switch kb {
					case kindAlphaS:
						return cKey1(b)
					case kindF32:
						return 0x3f800000 + b<<12
					}
					return b
				}
				// tree B uses a different byte set, so that anything tree A left behind in a recycled node stays visible
				inA := map[int]bool{}
				for _, b := range bs {
					inA[b] = true
				}
				var bsB []int
				for _, b := range fanBytes(256, c.Seed+7, 3) {
					if !inA[b] && len(bsB) < cls.grow {
						bsB = append(bsB, b) // disjoint from A's bytes (A holds 00,01,7f,80,fe,ff): every stale entry stays visible
					}
				}
				for _, b := range bsB {
					ops = append(ops, [3]int{1, opInsertC, conc(b)})
				}
				big := cls.grow > 5
				if !big {
					ops = append(ops, [3]int{0, opInsert, aSpec(0, 1)}, [3]int{1, opDelete, aSpec(0, 1)})
				}
				// tree A is emptied by deletion and then used again
				rest := bs[:cls.shrink]
				if keep {
					rest = bs
				}
				for _, b := range rest {
					ops = append(ops, [3]int{0, opDeleteC, cKey1(b)})
				}
				ops = append(ops, [3]int{0, opInsert, aSpec(0, 1)}, [3]int{0, opInsertC, cKey1(0x41)})
				mask := ckShape
				if big {
					mask = 0 // the walker over 48/256-way nodes after each of ~150 operations exceeds the step budget; final() still checks the shape
				}
				p := []int{pool, kindAlphaB, kb, mask, len(ops)}
				for _, o := range ops {
					p = append(p, o[0], o[1], o[2])
				}
				pa, pb := aSpec(0, 1), aSpec(0, 1)
				if big {
					pb = conc(bsB[0]) | 1<<30
				}
				p = append(p, pa, pb)
				lbl := fmt.Sprintf("F-two %s released by A, acquired by B (%s), pool=%d", name, kindNames[kb], pool)
				if keep {
					lbl = fmt.Sprintf("F-two %s kept by A while B grows through the same class (%s), pool=%d", name, kindNames[kb], pool)
				}
				out = append(out, &Scenario{Harness: "hTwo", Params: p, MaxSteps: 300_000_000, Label: lbl})
			}
		}
	}
	if pool == 0 {
		// two collation trees built with the default options, and a collation tree next to a byte-string tree: apart
		// from the node pool nothing may be shared — in particular not the (stateful) collator
		for _, kb := range []int{14, kindAlphaB} {
			kb2 := cSpec(1, 2)
			kb5 := cSpec(5, 3)
			if kb != 14 {
				kb2, kb5 = aSpec(0, 1), aSpec(0, 2)
			}
			ops := [][3]int{{0, opInsert, cSpec(0, 2)}, {1, opInsert, kb2}, {0, opInsert, cSpec(2, 2)}, {1, opInsert, kb5}, {0, opDelete, cSpec(0, 2)}, {1, opDelete, kb2}}
			p := []int{pool, 14, kb, ckMap, len(ops)}
			for _, o := range ops {
				p = append(p, o[0], o[1], o[2])
			}
			p = append(p, cSpec(2, 2), kb5)
			out = append(out, &Scenario{Harness: "hTwo", Params: p, MaxSteps: 300_000_000, Label: fmt.Sprintf("F-two collation tree next to a %s tree", kindNames[kb])})
		}
	}
	return out
}

func aliasScenarios(c *CheckRun) []*Scenario {
	var out []*Scenario
	maxLen, maxSpare := 2, 2
	if c.Tier != "quick" {
		maxLen, maxSpare = 3, 2
	}
	for op := 0; op <= 4; op++ {
		for n := 0; n <= maxLen; n++ {
			for sp := 0; sp <= maxSpare; sp++ {
				// one earlier stored key, then the call under test with spare capacity sp
				out = append(out, simple("hAlias", "byte-string []byte: call with spare capacity", 0, 0, 2, 0, 1, 1, op, n, sp))
			}
		}
	}
	// Range with an empty end bound: one stored key, start below / above it (the bounds are swapped in the second case)
	for n := 0; n <= maxLen; n++ {
		for sp := 1; sp <= maxSpare; sp++ {
			out = append(out, simple("hAlias", "byte-string []byte: Range with an empty end, spare capacity", 0, 0, 2, 0, 1, 1, 5, n, sp))
		}
	}
	out = append(out, simple("hAlias", "byte-string []byte: Range with an empty end over a shared stem", 0, 0, 3, 0, aSpec(3, 1), 0, 0, aSpec(3, 1), 0, 5, aSpec(3, 1), 2))
	// two inserts then scribble (retention), every length pair and spare capacity
	for n1 := 0; n1 <= maxLen; n1++ {
		for n2 := 0; n2 <= maxLen; n2++ {
			for sp := 0; sp <= maxSpare; sp += 2 {
				out = append(out, simple("hAlias", "byte-string []byte: two inserts, buffers scribbled", 0, 0, 2, 0, n1, sp, 0, n2, sp))
			}
			// the scanner idiom: one buffer reused
			out = append(out, simple("hAlias", "byte-string []byte: one buffer reused", 0, 1, 3, 0, n1, 1, 0, n2, 0, 1, n1, 0))
		}
	}
	// sequences over a tree with a compressed path (two stored keys sharing a stem): the argument buffer is reused
	// between obtaining the sequence and ranging over it
	for _, st := range []int{3, 12} {
		for op := 3; op <= 4; op++ {
			out = append(out, simple("hAlias", fmt.Sprintf("byte-string []byte: lazy sequence over a %d-byte shared stem", st), 0, 0, 3, 0, aSpec(st, 1), 0, 0, aSpec(st, 1), 0, op, aSpec(st, 1), 1))
		}
	}
	// long keys: a concrete stem of 15/16/31/32/33/62 bytes plus one symbolic byte (stack-buffer and size-class boundaries)
	stems := []int{31, 32}
	if c.Tier != "quick" {
		stems = []int{15, 16, 31, 32, 33, 62}
	}
	for _, st := range stems {
		for op := 0; op <= 4; op++ {
			out = append(out, simple("hAlias", fmt.Sprintf("byte-string []byte: %d-byte keys with spare capacity", st+1), 0, 0, 2, 0, aSpec(st, 1), 1, op, aSpec(st, 1), 2))
		}
		out = append(out, simple("hAlias", fmt.Sprintf("byte-string []byte: %d-byte keys, one buffer reused", st+1), 0, 1, 3, 0, aSpec(st, 1), 1, 0, aSpec(st, 1), 0, 1, aSpec(st, 1), 0))
	}
	// collation []byte tree
	for op := 0; op <= 4; op++ {
		for sp := 0; sp <= 2; sp += 2 {
			out = append(out, simple("hAlias", "collation []byte: call with spare capacity", 15, 0, 2, 0, cSpec(0, 2), 1, op, cSpec(2, 3), sp))
		}
	}
	// Prefix over stored "ab", "abc" with the prefix "a" / "ab" / "b": the argument buffer is reused before the sequence is ranged over
	for _, pu := range []int{0, 2, 1} {
		out = append(out, simple("hAlias", "collation []byte: lazy Prefix sequence", 15, 0, 3, 0, cSpec(2, 2), 0, 0, cSpec(5, 3), 0, 3, cSpec(pu, 2), 1))
	}
	// one buffer refilled in place with keys of the SAME length ("a","b","B" / "ab","é","á"): anything the tree keeps
	// that still refers to the caller's buffer now reads the new content under the old length
	for _, us := range [][3]int{{0, 1, 7}, {2, 3, 6}} {
		l := 2
		out = append(out, simple("hAlias", "collation []byte: one buffer refilled with same-length keys", 15, 1, 3, 0, cSpec(us[0], l), 0, 0, cSpec(us[1], l), 0, 0, cSpec(us[2], l), 0))
		out = append(out, simple("hAlias", "collation []byte: one buffer refilled with same-length keys", 15, 1, 3, 0, cSpec(us[0], l), 0, 1, cSpec(us[1], l), 0, 0, cSpec(us[1], l), 0))
		out = append(out, simple("hAlias", "collation []byte: one buffer refilled with same-length keys", 15, 1, 3, 1, cSpec(us[0], l), 0, 0, cSpec(us[1], l), 0, 2, cSpec(us[0], l), 0))
	}
	out = append(out, simple("hAlias", "collation []byte: one buffer reused", 15, 1, 3, 0, cSpec(0, 2), 1, 0, cSpec(2, 2), 0, 1, cSpec(0, 2), 0))
	return out
}

func init() {
	register(&CheckSpec{
		ID: "C07", Level: "proof", Summaries: true,
		Rule: "one obligation = one vpAssert of harness/codec.go over full-width symbolic values of one key type; discharged = the solver answered unsat for its negation on every path",
		Scenarios: func(c *CheckRun) []*Scenario {
			var out []*Scenario
			for k := kindU8; k <= kindF64; k++ {
				out = append(out, simple("hCodec", "codec "+kindNames[k], k, 8))
			}
			return out
		},
		Alt386: func(c *CheckRun) []*Scenario {
			var out []*Scenario
			for k := kindU8; k <= kindF64; k++ {
				out = append(out, simple("hCodec", "codec "+kindNames[k], k, 4))
			}
			return out
		},
		Bounds:      []string{"none within the listed types: x, y range over every bit pattern of uint8..uint64, uint, int8..int64, int, float32, float64 (GOARCH=amd64: int/uint are 64-bit)", "tuples: two-field concatenations of the same type"},
		Outside:     []string{"Restore on byte strings that no Transform produces", "32-bit int/uint arms (GOARCH=386) are checked by the thorough tier only"},
		Assumptions: []string{"float order and NaN-ness are stated in the solver's FP theory (fp.lt, fp.eq, fp.isNaN over to_fp of the bit patterns)", "go/ssa IR faithful to the source; z3 5.1.0 correct"},
	})
	register(&CheckSpec{
		ID: "C08", Level: "model_checking", Summaries: true, Rule: stateRule,
		Scenarios: func(c *CheckRun) []*Scenario {
			kinds := []int{14, 15, 16}
			full := ckMap | ckSize | ckIter
			out := collScenarios(c, full, nil, kinds, 0, "")
			out = append(out, collScenarios(c, ckExt, nil, []int{14}, 0, "")...)
			out = append(out, collScenarios(c, ckShape|ckSize, nil, []int{14, 16}, 0, "")...)
			out = append(out, collScenarios(c, ckPrefix, func(b *histB) []int { return []int{cSpec(0, 1)} }, []int{14}, 0, "")...)
			// known class K1: F(s) a proper prefix of F(s')
			k1 := collScenarios(c, full, nil, []int{14}, 1, "K1")
			if len(k1) > 12 {
				k1 = k1[:12]
			}
			out = append(out, k1...)
			// wide nodes (17..49 strings branching at one collation-key byte; concrete keys), incl. a node48 with holes
			out = append(out, fanKindsOf(c, ckMap|ckSize|ckIter, "/coll")...)
			return out
		},
		Bounds: []string{"original strings: concrete members of {a, b, ab, é, \"\", abc, á, B} (string, []byte, []rune keys); the collator is an uninterpreted function F: fresh symbolic key bytes per string, lengths 1..3 in every combination, plus lengths maxPrefixLen-1 / +2 for keys sharing a long prefix",
			"histories: 2-3 inserts, insert/delete/re-insert patterns, overwrite; thorough adds 4-key and delete-after-3 templates", "the real collate.Buffer fields and Reset are executed; only Collator.Key's output bytes are stubbed"},
		Outside:     []string{"that golang.org/x/text's Key honours its contract (order of keys = collation order; distinguishable strings get different keys)", "invalid code points in []rune keys", "collation-key sets where one key is a proper prefix of another (known class K1)"},
		Assumptions: commonAssume,
	})
	register(&CheckSpec{
		ID: "C09", Level: "model_checking", Summaries: true, Rule: stateRule,
		Scenarios: func(c *CheckRun) []*Scenario {
			return append(compoundScenarios(c), fanKindsOf(c, ckMap|ckSize|ckIter, "/compound")...)
		},
		Bounds:      []string{"table codec: key ids with symbolic encodings of lengths 1..3 (thorough 1..5) in every combination and maxPrefixLen+2/+3, under assume(injective ∧ prefix-free); the key order is the byte order of the encodings", "schema codec uint16 ‖ string ‖ 0x00 assembled from the library's codecs, symbolic field values, string field 0..2 bytes without 0x00", "assertion families Search/Delete/Size/All/Backward, Minimum/Maximum/TopK/BottomK, Range, well-formedness (thorough: re-iteration, purity) rotated over the templates"},
		Outside:     []string{"codecs whose encodings exceed the length bound", "codecs whose two Transform results differ"},
		Assumptions: commonAssume,
	})
	register(&CheckSpec{
		ID: "C10", Level: "model_checking",
		// second load with GOARCH=386: the portable node16_other.go routines (no assembly on that target)
		Alt386: func(c *CheckRun) []*Scenario {
			var out []*Scenario
			ns := func(s *Scenario) *Scenario { s.NoSummaries = true; return s }
			out = append(out, ns(simple("hEqSearch16", "portable searchNode16 == scalar scan", 255)), ns(simple("hEqInsertPos16", "portable insertPosNode16 == scalar scan", 255)))
			out = append(out, ns(simple("hEqSearch4", "searchNode4 == scalar scan", 255)), ns(simple("hEqInsertPos4", "insertPosNode4 == scalar scan", 255)))
			for _, n := range []int{0, 4, 5, 12, 15, 16} {
				for op := 0; op <= 2; op++ {
					if (op == 1 && n < 4) || (op == 0 && n == 16) {
						continue
					}
					out = append(out, ns(simple("hNode16Step", "node16 inductive step (portable routines)", n, op, 1)))
				}
			}
			return out
		},
		Rule:      "a state is a finished symbolic path of one node-level harness: (a) the primitive over every input, (b) one add/remove/find from an arbitrary state satisfying the representation invariant (inductive step), (c) a concrete base node with one symbolic add/remove and a symbolic probe",
		Scenarios: nodeScenarios,
		Bounds: []string{"(a) searchNode4, insertPosNode4, searchNode16, insertPosNode16 (Plan 9 amd64 assembly translated on every run) and the node4 word helpers: every input, no bound",
			"(b) node4: every fill count 0..4, arbitrary lanes under Inv4 (occupied lanes ascending, unoccupied lanes equal), stale or nil slots, symbolic byte and probe; incl. growth to node16 and collapse into an inner child with parent/child path lengths around maxPrefixLen. node16: every fill count, arbitrary lanes under Inv16, add (n<16) / remove / find, incl. shrink to node4. By induction these hold after any history.",
			"(c) node48/node256 and the transitions 16->48, 48->256, 256->48, 48->16: bounded — base byte sets {00,01,7f,80,fe,ff}+seed fill at every threshold, one symbolic add/remove, symbolic probe, structural consistency"},
		Outside:     []string{"node16 -> node48 growth and node48/256 from arbitrary symbolic states (only from the enumerated bases)", "node16_arm64.s (cannot be executed here; reading suggests it ignores childrenLen — not part of the verdict)", "node16_other.go (portable variant): thorough tier, GOARCH=riscv64 load"},
		Assumptions: []string{"the x86 mnemonic table of engine/asm.go (MOVQ/MOVD, MOVB, PXOR, VMOVDQU, PSHUFB, PCMPGTB, PCMPEQB, PMOVMSKB, SALW, SUBW, ANDW, CMPW, JEQ, TZCNTW, RET) is faithful; it is exercised natively by the replay of sampled paths", "go/ssa IR faithful; z3 5.1.0 correct"},
	})
	register(&CheckSpec{
		ID: "C12", Level: "model_checking", Summaries: true, Rule: stateRule,
		Scenarios: func(c *CheckRun) []*Scenario {
			return append(twoTemplates(c, 0), twoTemplates(c, 1)...)
		},
		Bounds:      []string{"two trees (A byte-string; B uint8, thorough also string/int8/float32) interleaved: A grows past a node class and shrinks back (releasing a node4/16/48/256), B then grows through the same class and receives the released object under the LIFO pool model; symbolic updates and probes on both; A is then emptied by deletion and used again", "pool models: reuse (LIFO) and fresh (every Get calls New) as control", "well-formedness of both trees after every operation"},
		Outside:     []string{"more than two trees; interleavings other than the templates", "the real sync.Pool's per-P caches and victim cache (native replay runs the real one)"},
		Assumptions: commonAssume,
	})
	register(&CheckSpec{
		ID: "C16", Level: "other", Summaries: true,
		RaceTags: []string{"C16 two trees touched the same memory outside the synchronised pool (or wrote package-level state)", "C16 a query stored to memory that existed before the call"},
		Rule:     "non-interference argument whose premises the solver-backed executor checks on the real code: (i) in two-tree interleavings no memory location is touched by operations of both trees (with a write among them) except objects handed over through sync.Pool.Put/Get, and no package-level variable is written outside init; (ii) read-only queries on byte-string/numeric trees perform no store to memory that existed before the call. Under (i),(ii) every interleaving of such operations is data-race free and equivalent to a sequential one (ownership argument; Go memory model and sync.Pool trusted).",
		Scenarios: func(c *CheckRun) []*Scenario {
			out := twoTemplates(c, 0)
			for _, s := range out {
				s.Params[3] |= ckPure // switch the footprint assertion on
			}
			// reader premise: the pure queries of C15 (which <= 5) on every family
			pure := pureScenarios(c)
			for _, s := range pure {
				if s.Harness == "hHuge" {
					continue // C15's long-key scenarios carry no query selector
				}
				// extra = [which, sa, sb] are the last three params
				w := s.Params[len(s.Params)-3]
				if w <= 5 {
					out = append(out, s)
				}
			}
			return out
		},
		Bounds:      []string{"footprints of the F-two interleavings (see C12) and of every read-only query of the C15 scenario set"},
		Outside:     []string{"real goroutine schedules are not explored (the executor is sequential); collation trees keep per-call scratch state and are outside the reader claim, as the property says", "histories beyond the templates"},
		Assumptions: []string{"Go memory model; sync.Pool is correctly synchronised; an object released with Put is not touched again by the releaser (checked: such a touch is a conflict)"},
	})
	register(&CheckSpec{
		ID: "C13", Level: "model_checking", Summaries: true, Rule: stateRule,
		Scenarios:   aliasScenarios,
		Bounds:      []string{"[]byte keys of length 0..2 (thorough 0..3) that are sub-slices of caller buffers with 0..2 bytes of live spare capacity; each of Insert, Search, Delete, Prefix, Range; one buffer reused for successive keys; afterwards every byte of every buffer is overwritten with fresh symbolic data and the tree is compared with the reference by Search and All()", "byte-string []byte tree and collation []byte tree"},
		Outside:     []string{"keys longer than 3 bytes, more than 3 calls"},
		Assumptions: commonAssume,
	})
}

func retainScenarios(c *CheckRun) []*Scenario {
	var out []*Scenario
	base := cheapBig(histFamiliesW(c, true, true))
	i := 0
	for _, b := range base {
		cycs := []int{0, 1, 2, 3}
		var pick []int
		if c.Tier == "quick" {
			pick = []int{cycs[i%4]}
			i++
		} else {
			pick = cycs
		}
		for _, cy := range pick {
			bb := b
			bb.mask = ckRetain
			bb.probes = nil
			spec := probeSpec(&b)
			if cy == 1 || cy == 3 {
				// the cycle needs a present key: take the shape of a key the history inserts
				for _, o := range b.ops {
					if o[0] == opInsert {
						spec = o[1]
					} else if o[0] == opInsertC {
						spec = o[1] | 1<<30
					}
				}
			}
			bb.extra = []int{cy, spec}
			s := bb.scn()
			s.MayBeVacuous = true // e.g. a history whose deletes leave no key of that shape
			out = append(out, s)
		}
	}
	// a retired node goes back to the pool and is reused by a sibling fan of the same tree; the keys its unoccupied
	// slots could still point at are then deleted: 17 (49) siblings below "a" (the node16 (node48) is retired on the growth),
	// 5 (17) siblings below "ab" (their node grows and takes the retired object under the LIFO pool model), then
	// 10 (30) of the first group are deleted
	for _, sz := range [][3]int{{17, 5, 10}, {49, 17, 30}} {
		if sz[0] > 17 && c.Tier == "quick" {
			continue
		}
		var ops [][2]int
		var as []int
		for _, b := range fanBytes(sz[0]+2, c.Seed, 2) {
			if b != 0 && b != 'b' && len(as) < sz[0] {
				as = append(as, b)
			}
		}
		for _, b := range as {
			ops = append(ops, [2]int{opInsertC, cKeyStem(1, b)})
		}
		n := 0
		for _, b := range fanBytes(sz[1]+1, c.Seed, 3) {
			if b != 0 && n < sz[1] {
				ops = append(ops, [2]int{opInsertC, cKeyStem(2, b)})
				n++
			}
		}
		sorted := append([]int(nil), as[:sz[0]-1]...)
		sort.Ints(sorted)
		for i := 0; i < sz[2]; i++ {
			ops = append(ops, [2]int{opDeleteC, cKeyStem(1, sorted[len(sorted)-1-i])})
		}
		for _, cy := range []int{10, 2} {
			out = append(out, histB{kind: kindAlphaB, mask: ckRetain, ops: ops, extra: []int{cy, aSpec(1, 1)}, big: true, stem: 1,
				label: fmt.Sprintf("retired node reused by a sibling fan (%d+%d keys, %d deleted)", sz[0], sz[1], sz[2])}.scn())
		}
	}
	// single-method query histories (a mixed cycle can hide a leak that another method resets)
	for _, cy := range []int{10, 11, 12, 13, 14, 15} {
		for _, kind := range []int{14, 15, 16} {
			k0, k1, k2 := cSpec(0, 2), cSpec(3, 2), cSpec(2, 3)
			b := histB{kind: kind, mask: ckRetain, ops: [][2]int{{opInsert, k0}, {opInsert, k1}, {opInsert, k2}}, extra: []int{cy, k1}, label: "coll retained, single-method queries"}
			s := b.scn()
			s.Harness = "hColl"
			out = append(out, s)
		}
		out = append(out, histB{kind: kindAlphaB, mask: ckRetain, ops: [][2]int{{opInsert, aSpec(0, 2)}, {opInsert, aSpec(0, 2)}, {opInsert, aSpec(0, 1)}}, extra: []int{cy, aSpec(0, 2)}, label: "single-method queries"}.scn())
		out = append(out, histB{kind: kindI64, mask: ckRetain, ops: [][2]int{{opInsert, 0}, {opInsert, 0}}, extra: []int{cy, 0}, label: "single-method queries"}.scn())
		tb := histB{kind: 17, mask: ckRetain, ops: [][2]int{{opInsert, cSpec(0, 2)}, {opInsert, cSpec(1, 2)}}, extra: []int{cy, cSpec(0, 2)}, label: "table retained, single-method queries"}
		ts := tb.scn()
		ts.Harness = "hCompound"
		out = append(out, ts)
	}
	// collation (the shared collate.Buffer is part of what the tree keeps alive) and compound trees
	for cy := 0; cy <= 3; cy++ {
		for _, kind := range []int{14, 15, 16} {
			k0, k1, k2 := cSpec(0, 2), cSpec(3, 2), cSpec(2, 3)
			b := histB{kind: kind, mask: ckRetain, ops: [][2]int{{opInsert, k0}, {opInsert, k1}, {opInsert, k2}}, extra: []int{cy, []int{k0, k0, cSpec(1, 2), k1}[cy]}, label: "coll retained"}
			s := b.scn()
			s.Harness = "hColl"
			out = append(out, s)
		}
		t0, t1 := cSpec(0, 2), cSpec(1, 2)
		b := histB{kind: 17, mask: ckRetain, ops: [][2]int{{opInsert, t0}, {opInsert, t1}}, extra: []int{cy, []int{t0, t0, cSpec(2, 2), t1}[cy]}, label: "table retained"}
		s := b.scn()
		s.Harness = "hCompound"
		out = append(out, s)
	}
	return out
}

func gcScenarios(c *CheckRun) []*Scenario {
	var out []*Scenario
	kinds := []int{0, 1, 3, 8, 12, 14}
	for _, k := range kinds {
		for v := 0; v <= 4; v++ {
			n := 2
			if k == 8 || k == 12 || k == 3 {
				n = 1
			}
			if c.Tier != "quick" && (k == 0 || k == 1) {
				n = 3
			}
			out = append(out, simple("hGC", fmt.Sprintf("tree %s, value type %s", kindNames[k], []string{"*int", "string", "[]int", "struct{}", "[16]uint64"}[v]), k, v, n))
		}
	}
	// a value of 5 bytes: the offset of the leaf field behind the value depends on that field's own width, so two
	// leaf layouts that agree for word-multiple values (and are natively indistinguishable there) differ here
	for _, k := range []int{0, 3, 8, 12} {
		out = append(out, simple("hGC", fmt.Sprintf("tree %s, value type [5]byte", kindNames[k]), k, 5, 1))
	}
	// keys sharing 100 and 300 bytes: compressed paths longer than a node4 / node16 object, with Range over them
	for _, stem := range []int{100, 300} {
		for _, v := range []int{0, 4} {
			out = append(out, simple("hGC", fmt.Sprintf("byte-string keys sharing %d bytes, Range", stem), 0, v, 2, stem))
		}
	}
	return out
}

func init() {
	register(&CheckSpec{
		ID: "C17", Level: "model_checking", Summaries: true, Rule: stateRule,
		Scenarios: retainScenarios,
		Bounds: []string{"retained = bytes of every object reachable from the tree value (nodes, leaves, key arrays, codec scratch such as the collation buffer) plus the used length of every slice in them, in the executor's heap model with gc/amd64 sizes",
			"obligations per history: retained after 1 warm-up cycle == retained after 3 cycles (induction over the number of cycles) for the cycles {all read-only queries, overwrite of a present key, insert-absent-then-delete, delete-present-then-reinsert}; after deleting everything retained <= empty tree + 256 bytes",
			"histories: thinned F-short/F-long/F-num/F-fan families, collation (string/[]byte/[]rune) and compound table trees"},
		Outside:     []string{"the real allocator's size classes and the real collector: native replay measures live heap after two forced GCs around 100000 repetitions (256 KiB slack), the verdict itself rests on the model", "memory held by sync.Pool (not reachable from the tree)"},
		Assumptions: commonAssume,
	})
	register(&CheckSpec{
		ID: "C18", Level: "model_checking", Summaries: true, Rule: stateRule,
		ReplayGcflags: "all=-d=checkptr",
		Scenarios:     gcScenarios,
		Bounds: []string{"value types *int, string, []int, struct{}, [16]uint64 (and [5]byte on byte-string, uint16, int16, float32 trees) × trees byte-string []byte/string, uint16, int16, float32, collation string; 1-3 symbolic inserts, one overwrite, one delete, read-back by Search, All and (numeric kinds) Range",
			"every unsafe.Pointer -> *T conversion on every path is checked against the object actually pointed to: identical type, first-field / enclosing-struct, same-size scalar, or identical flattened layout (offsets, sizes, pointer-ness) — anything else is a fault; uintptr<->unsafe.Pointer conversions and unsafe.Slice beyond the allocation are faults"},
		Outside:     []string{"the garbage collector itself cannot be run symbolically: the claim is that the code obeys the unsafe.Pointer rules that make collector timing irrelevant, plus value integrity; native replay runs with forced collections", "larger histories"},
		Assumptions: append([]string{"Go's precise collector is correct for programs that obey the unsafe.Pointer rules"}, commonAssume...),
	})
}
