package main

// Native replay: the same harnesses, compiled by the real toolchain against /repo's working tree,
// driven by concrete tapes (DESIGN §3.2, §3.3).

import (
	"bufio"
	"encoding/json"
	"fmt"
	"os"
	"os/exec"
	"path/filepath"
	"strings"
	"sync"
	"time"
)

type ReplayReq struct {
	ID      int         `json:"id"`
	Harness string      `json:"harness"`
	Params  []int       `json:"params"`
	Tape    []TapeEntry `json:"tape"`
	GCMode  int         `json:"gcmode"`
}

type ReplayRes struct {
	ID      int        `json:"id"`
	Outcome string     `json:"outcome"`
	Tag     string     `json:"tag"`
	Msg     string     `json:"msg"`
	Traces  []TraceVal `json:"traces"`
	Used    int        `json:"used"`
	Failed  []string   `json:"failed"`
	Race    bool       `json:"race"`
}

type Replayer struct {
	bin     string
	workDir string
	built   bool
	mu      sync.Mutex
	buildT  time.Duration
	extraOv map[string]string // additional overlay replacements (e.g. patched x/text collate.go)
	tags    string
	gcflags string
	race    bool
	goarch  string
}

func NewReplayer(name string) *Replayer {
	wd := filepath.Join(outDir, "out", "replay-"+name)
	os.MkdirAll(wd, 0o755)
	return &Replayer{bin: filepath.Join(wd, "replay.test"), workDir: wd, tags: "verif", extraOv: map[string]string{}}
}

func (r *Replayer) Build() error {
	r.mu.Lock()
	defer r.mu.Unlock()
	if r.built {
		return nil
	}
	t0 := time.Now()
	repl := map[string]string{}
	files, _ := filepath.Glob(filepath.Join(verifDir, "harness", "*.go"))
	for _, f := range files {
		repl[filepath.Join(repoDir, "zz_verif_"+filepath.Base(f))] = f
	}
	for k, v := range r.extraOv {
		repl[k] = v
	}
	if cpath, csrc, err := collateOverlay(); err == nil {
		pf := filepath.Join(r.workDir, "xtext_collate.go")
		if err := os.WriteFile(pf, csrc, 0o644); err != nil {
			return err
		}
		repl[cpath] = pf
	} else {
		return err
	}
	ovb, _ := json.Marshal(map[string]interface{}{"Replace": repl})
	ovPath := filepath.Join(r.workDir, "overlay.json")
	if err := os.WriteFile(ovPath, ovb, 0o644); err != nil {
		return err
	}
	args := []string{"test", "-c", "-vet=off", "-tags", r.tags, "-overlay", ovPath, "-o", r.bin}
	if r.gcflags != "" {
		args = append(args, "-gcflags="+r.gcflags)
	}
	if r.race {
		args = append(args, "-race")
	}
	args = append(args, ".")
	cmd := exec.Command("go", args...)
	cmd.Dir = repoDir
	cmd.Env = append(os.Environ(), "GOFLAGS=-mod=mod", "GOPROXY=off")
	if r.goarch != "" {
		cmd.Env = append(cmd.Env, "GOARCH="+r.goarch, "CGO_ENABLED=0")
	}
	out, err := cmd.CombinedOutput()
	if err != nil {
		return fmt.Errorf("go test -c failed: %v\n%s", err, out)
	}
	r.built = true
	r.buildT = time.Since(t0)
	return nil
}

// Run executes the requests natively; missing results (crash/hang of the test binary) are reported with
// outcome "noresult".
func (r *Replayer) Run(reqs []ReplayReq, env ...string) (map[int]ReplayRes, error) {
	if err := r.Build(); err != nil {
		return nil, err
	}
	results := map[int]ReplayRes{}
	remaining := reqs
	round := 0
	for len(remaining) > 0 && round < 50 {
		round++
		in := filepath.Join(r.workDir, fmt.Sprintf("tapes-%d-%d.jsonl", os.Getpid(), round))
		out := filepath.Join(r.workDir, fmt.Sprintf("results-%d-%d.jsonl", os.Getpid(), round))
		f, err := os.Create(in)
		if err != nil {
			return nil, err
		}
		bw := bufio.NewWriter(f)
		for _, q := range remaining {
			b, _ := json.Marshal(q)
			bw.Write(b)
			bw.WriteByte('\n')
		}
		bw.Flush()
		f.Close()
		cmd := exec.Command(r.bin, "-test.run", "^TestVerifReplay$", "-test.timeout", "20m")
		cmd.Dir = repoDir
		cmd.Env = append(append(os.Environ(), "VERIF_TAPES="+in, "VERIF_RESULTS="+out), env...)
		cout, _ := cmd.CombinedOutput()
		raced := strings.Contains(string(cout), "DATA RACE")
		got := 0
		if rf, err := os.Open(out); err == nil {
			sc := bufio.NewScanner(rf)
			sc.Buffer(make([]byte, 1<<20), 1<<26)
			for sc.Scan() {
				var res ReplayRes
				if json.Unmarshal(sc.Bytes(), &res) == nil {
					res.Race = raced
					results[res.ID] = res
					got++
				}
			}
			rf.Close()
		}
		os.Remove(in)
		os.Remove(out)
		var next []ReplayReq
		for _, q := range remaining {
			if _, ok := results[q.ID]; !ok {
				next = append(next, q)
			}
		}
		if len(next) > 0 {
			// the binary died while running next[0] (a fatal error no recover can catch)
			if got == 0 || len(next) == len(remaining) {
				msg := string(cout)
				if len(msg) > 2000 {
					msg = msg[len(msg)-2000:]
				}
				results[next[0].ID] = ReplayRes{ID: next[0].ID, Outcome: "crash", Msg: strings.TrimSpace(msg)}
				next = next[1:]
			}
		}
		remaining = next
	}
	for _, q := range remaining {
		results[q.ID] = ReplayRes{ID: q.ID, Outcome: "noresult"}
	}
	return results, nil
}
