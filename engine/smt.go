package main

// Solver layer: one persistent SMT-LIB2 process per worker, text over pipes.

import (
	"bufio"
	"fmt"
	"io"
	"os"
	"os/exec"
	"strconv"
	"strings"
	"sync/atomic"
	"time"
)

type SolverStats struct {
	Queries int64
	Sat     int64
	Unsat   int64
	Unknown int64
	Errors  int64
	NanosIn int64
}

var gStats SolverStats

type Solver struct {
	cmd      *exec.Cmd
	in       io.WriteCloser
	out      *bufio.Reader
	declared map[string]bool
	defined  map[int32]bool // terms defined at the current path scope
	depth    int
	buf      strings.Builder
	kind     string
	log      io.Writer
	dead     bool
}

func solverArgv(kind string) []string {
	switch kind {
	case "z3-new":
		return []string{"z3-new", "-in"}
	case "cvc5":
		return []string{"cvc5", "--incremental", "--lang=smt2", "--produce-models"}
	}
	return []string{"z3", "-in"}
}

func NewSolver(kind string, timeoutMs int) (*Solver, error) {
	argv := solverArgv(kind)
	cmd := exec.Command(argv[0], argv[1:]...)
	// blocking pipes: the netpoller's cross-thread wake-ups are slow in this VM (measured 2 ms vs 0.4 ms)
	r1, w1, err := os.Pipe()
	if err != nil {
		return nil, err
	}
	r2, w2, err := os.Pipe()
	if err != nil {
		return nil, err
	}
	cmd.Stdin = r1
	cmd.Stdout = w2
	cmd.Stderr = w2
	if err := cmd.Start(); err != nil {
		return nil, err
	}
	r1.Close()
	w2.Close()
	w1.Fd()
	r2.Fd()
	var in io.WriteCloser = w1
	var outp io.Reader = r2
	s := &Solver{cmd: cmd, in: in, out: bufio.NewReaderSize(outp, 1<<16), declared: map[string]bool{}, defined: map[int32]bool{}, kind: kind}
	if kind == "cvc5" {
		s.raw(fmt.Sprintf("(set-option :tlimit-per %d)\n(set-logic ALL)\n", timeoutMs))
	} else {
		s.raw(fmt.Sprintf("(set-option :timeout %d)\n", timeoutMs))
	}
	s.raw("(set-option :produce-models true)\n")
	if lf := os.Getenv("VERIF_SMTLOG"); lf != "" {
		f, _ := os.OpenFile(lf, os.O_CREATE|os.O_WRONLY|os.O_APPEND, 0644)
		s.log = f
	}
	return s, nil
}

func (s *Solver) Close() {
	if s.dead {
		return
	}
	s.dead = true
	s.in.Close()
	done := make(chan struct{})
	go func() { s.cmd.Wait(); close(done) }()
	select {
	case <-done:
	case <-time.After(2 * time.Second):
		s.cmd.Process.Kill()
	}
}

func (s *Solver) raw(txt string) {
	if s.log != nil {
		io.WriteString(s.log, txt)
	}
	s.buf.WriteString(txt)
}

func (s *Solver) flush() error {
	if s.buf.Len() == 0 {
		return nil
	}
	_, err := io.WriteString(s.in, s.buf.String())
	s.buf.Reset()
	return err
}

// ensure emits declarations/definitions for every node of t (post-order).
func (s *Solver) ensure(t *Term) error {
	switch t.op {
	case OConst:
		return nil
	case OVar:
		if !s.declared[t.name] {
			s.declared[t.name] = true
			s.raw("(declare-const " + t.name + " " + sortOf(t.w) + ")\n")
		}
		return nil
	}
	if s.defined[t.id] {
		return nil
	}
	// iterative post-order to avoid deep recursion on long chains
	type frame struct {
		t     *Term
		stage int
	}
	stack := []frame{{t, 0}}
	for len(stack) > 0 {
		f := &stack[len(stack)-1]
		x := f.t
		if x.op == OConst || s.defined[x.id] && x.op != OVar {
			stack = stack[:len(stack)-1]
			continue
		}
		if x.op == OVar {
			if !s.declared[x.name] {
				s.declared[x.name] = true
				s.raw("(declare-const " + x.name + " " + sortOf(x.w) + ")\n")
			}
			stack = stack[:len(stack)-1]
			continue
		}
		if f.stage == 0 {
			f.stage = 1
			for _, ch := range []*Term{x.c, x.b, x.a} {
				if ch != nil && ch.op != OConst {
					stack = append(stack, frame{ch, 0})
				}
			}
			continue
		}
		body, err := smtBody(x)
		if err != nil {
			return err
		}
		s.raw(fmt.Sprintf("(define-fun t%d () %s %s)\n", x.id, sortOf(x.w), body))
		s.defined[x.id] = true
		stack = stack[:len(stack)-1]
	}
	return nil
}

// BeginPath opens the path-level scope; declarations and definitions live inside it.
func (s *Solver) BeginPath() {
	s.raw("(push 1)\n")
	s.defined = map[int32]bool{}
	s.declared = map[string]bool{}
}

func (s *Solver) EndPath() {
	s.raw("(pop 1)\n")
	s.defined = map[int32]bool{}
	s.declared = map[string]bool{}
}

func (s *Solver) Assert(t *Term) error {
	if err := s.ensure(t); err != nil {
		return err
	}
	s.raw("(assert " + smtRef(t) + ")\n")
	return nil
}

type SatResult int

const (
	RUnsat SatResult = iota
	RSat
	RUnknown
	RError
)

func (r SatResult) String() string {
	return [...]string{"unsat", "sat", "unknown", "error"}[r]
}

func (s *Solver) readLine() (string, error) {
	line, err := s.out.ReadString('\n')
	return strings.TrimSpace(line), err
}

func (s *Solver) checkSat() (SatResult, string) {
	s.raw("(check-sat)\n")
	t0 := time.Now()
	if err := s.flush(); err != nil {
		return RError, err.Error()
	}
	atomic.AddInt64(&gStats.Queries, 1)
	for {
		line, err := s.readLine()
		if err != nil {
			atomic.AddInt64(&gStats.Errors, 1)
			return RError, "solver pipe: " + err.Error()
		}
		if line == "" {
			continue
		}
		atomic.AddInt64(&gStats.NanosIn, int64(time.Since(t0)))
		switch line {
		case "sat":
			atomic.AddInt64(&gStats.Sat, 1)
			return RSat, ""
		case "unsat":
			atomic.AddInt64(&gStats.Unsat, 1)
			return RUnsat, ""
		case "unknown", "timeout":
			atomic.AddInt64(&gStats.Unknown, 1)
			return RUnknown, line
		}
		atomic.AddInt64(&gStats.Errors, 1)
		return RError, line
	}
}

// CheckWith asks whether (current assertions ∧ extra) is satisfiable; optionally returns a model
// over the requested variables.
func (s *Solver) CheckWith(extra *Term, vars []*Term) (SatResult, Model, string) {
	if extra != nil {
		if err := s.ensure(extra); err != nil {
			return RError, nil, err.Error()
		}
		s.raw("(push 1)\n(assert " + smtRef(extra) + ")\n")
	}
	res, msg := s.checkSat()
	var m Model
	if res == RSat && len(vars) > 0 {
		var err error
		m, err = s.getValues(vars)
		if err != nil {
			res, msg = RError, err.Error()
		}
	}
	if extra != nil {
		s.raw("(pop 1)\n")
	}
	return res, m, msg
}

func (s *Solver) getValues(vars []*Term) (Model, error) {
	var sb strings.Builder
	sb.WriteString("(get-value (")
	for _, v := range vars {
		sb.WriteString(v.name)
		sb.WriteByte(' ')
	}
	sb.WriteString("))\n")
	s.raw(sb.String())
	if err := s.flush(); err != nil {
		return nil, err
	}
	// read balanced s-expression
	var txt strings.Builder
	depth := 0
	started := false
	for {
		line, err := s.out.ReadString('\n')
		if err != nil {
			return nil, err
		}
		for _, ch := range line {
			if ch == '(' {
				depth++
				started = true
			} else if ch == ')' {
				depth--
			}
		}
		txt.WriteString(line)
		if started && depth <= 0 {
			break
		}
	}
	out := txt.String()
	if strings.Contains(out, "(error") {
		return nil, fmt.Errorf("get-value: %s", strings.TrimSpace(out))
	}
	m := Model{}
	// tokens: (name value) pairs; value is #x.., #b.., true, false
	toks := strings.FieldsFunc(out, func(r rune) bool { return r == '(' || r == ')' || r == ' ' || r == '\n' || r == '\t' })
	for i := 0; i+1 < len(toks); i += 2 {
		name, val := toks[i], toks[i+1]
		var v uint64
		switch {
		case val == "true":
			v = 1
		case val == "false":
			v = 0
		case strings.HasPrefix(val, "#x"):
			v, _ = strconv.ParseUint(val[2:], 16, 64)
		case strings.HasPrefix(val, "#b"):
			v, _ = strconv.ParseUint(val[2:], 2, 64)
		case val == "_": // (_ bvN w)
			if i+3 < len(toks) && strings.HasPrefix(toks[i+2], "bv") {
				v, _ = strconv.ParseUint(toks[i+2][2:], 10, 64)
				i += 2
			}
		default:
			return nil, fmt.Errorf("get-value: cannot parse %q in %q", val, out)
		}
		m[name] = v
	}
	return m, nil
}
