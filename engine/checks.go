package main

// Per-property check definitions: which scenarios each tier explores (DESIGN §4, §5).

import (
	"fmt"
	"sort"
	"strings"
)

const (
	ckMap = 1 << iota
	ckSize
	ckIter
	ckExt
	ckRange
	ckPrefix
	ckShape
	ckReiter
	ckPure
	ckRetain
	ckAlias
)

const (
	opInsert   = 0
	opDelete   = 1
	opInsertC  = 3 // insert a concrete key (spec packs up to 3 bytes: len<<24 | b0<<16 | b1<<8 | b2)
	opDeleteC  = 4
	kindAlphaB = 0
	kindAlphaS = 1
	kindU8     = 2
	kindU16    = 3
	kindU32    = 4
	kindU64    = 5
	kindUint   = 6
	kindI8     = 7
	kindI16    = 8
	kindI32    = 9
	kindI64    = 10
	kindInt    = 11
	kindF32    = 12
	kindF64    = 13
)

var kindNames = map[int]string{0: "alpha[]byte", 1: "alpha string", 2: "uint8", 3: "uint16", 4: "uint32", 5: "uint64", 6: "uint",
	7: "int8", 8: "int16", 9: "int32", 10: "int64", 11: "int", 12: "float32", 13: "float64", 14: "coll string", 15: "coll []byte", 16: "coll []rune", 17: "compound table", 18: "compound schema"}

type histB struct {
	kind, mask, kmode, pool int
	ops                     [][2]int
	probes                  []int
	extra                   []int
	known                   string
	label                   string
	big                     bool // large concrete fan-out base: keep symbolic probes cheap
	noSym                   bool // no symbolic update after the base
	mid                     bool // 9..17 siblings with a symbolic update
	stem                    int  // F-fan-stem: length of the concrete stem above the fan-out node
}

func (b histB) scn() *Scenario {
	p := []int{b.kind, b.mask, b.kmode, b.pool, len(b.ops)}
	for _, o := range b.ops {
		p = append(p, o[0], o[1])
	}
	p = append(p, len(b.probes))
	p = append(p, b.probes...)
	p = append(p, b.extra...)
	lbl := b.label
	if lbl == "" {
		lbl = "hist"
	}
	return &Scenario{Harness: "hHist", Params: p, Label: fmt.Sprintf("%s/%s", lbl, kindNames[b.kind]), Known: b.known}
}

// alpha key spec helpers (see harness/hist.go alphaKeyBytes)
func aSpec(stem, tail int) int         { return tail | stem<<4 }
func aSpecMut(stem, tail, pos int) int { return tail | stem<<4 | (pos+1)<<10 }

// opSeqs enumerates all sequences of n ops over {Insert,Delete} × specs; the first op is an Insert
// (a Delete on the empty tree is covered by the dedicated n=1 template).
func opSeqs(n int, specs []int, withDelete bool) [][][2]int {
	var out [][][2]int
	var rec func(cur [][2]int)
	rec = func(cur [][2]int) {
		if len(cur) == n {
			out = append(out, append([][2]int(nil), cur...))
			return
		}
		kinds := []int{opInsert}
		if withDelete && len(cur) > 0 {
			kinds = append(kinds, opDelete)
		}
		for _, k := range kinds {
			for _, s := range specs {
				rec(append(cur, [2]int{k, s}))
			}
		}
	}
	rec(nil)
	return out
}

// fShort: every op sequence of length n over key lengths lens, probes rotating (quick) or all (thorough).
func fShort(kind, n int, lens []int, allProbes bool) []histB {
	var out []histB
	specs := make([]int, len(lens))
	for i, l := range lens {
		specs[i] = aSpec(0, l)
	}
	for i, seq := range opSeqs(n, specs, true) {
		if allProbes {
			for _, ps := range specs {
				out = append(out, histB{kind: kind, ops: seq, probes: []int{ps}, label: fmt.Sprintf("F-short n=%d", n)})
			}
		} else {
			out = append(out, histB{kind: kind, ops: seq, probes: []int{specs[i%len(specs)]}, label: fmt.Sprintf("F-short n=%d", n)})
		}
	}
	return out
}

// fNum: numeric kinds: n symbolic ops (all Insert/Delete patterns, first is Insert), one probe.
func fNum(kind, n int) []histB {
	var out []histB
	for _, seq := range opSeqs(n, []int{0}, true) {
		out = append(out, histB{kind: kind, ops: seq, probes: []int{0}, label: fmt.Sprintf("F-num n=%d", n)})
	}
	return out
}

var checkSpecs = map[string]*CheckSpec{}

func register(s *CheckSpec) { checkSpecs[s.ID] = s }

// ---------------------------------------------------------------------------------------------
// template families

func (e *Engine) constInt(name string, def int) int {
	if c := e.pkg.Const(name); c != nil && c.Value != nil {
		if v := c.Value.Int64(); v != 0 {
			return int(v)
		}
	}
	return def
}

// longSpecs: key shapes around a shared concrete stem of length p (see DESIGN F-long).
func longSpecs(p int) []int {
	out := []int{aSpec(p, 0), aSpec(p, 1), aSpec(p, 2)}
	for _, j := range []int{0, p / 2, p - 1} {
		out = append(out, aSpecMut(p, 1, j))
	}
	if p >= 2 {
		out = append(out, aSpec(p-2, 0), aSpec(p-2, 1), aSpec(p-1, 0))
	}
	return out
}

// fLong: two keys stem(p)+1 build a compressed path of p bytes; then one more symbolic op and one probe.
func fLong(kind int, stems []int, rich bool) []histB {
	var out []histB
	for _, p := range stems {
		base := [][2]int{{opInsert, aSpec(p, 1)}, {opInsert, aSpec(p, 1)}}
		specs := longSpecs(p)
		i := 0
		for _, k := range []int{opInsert, opDelete} {
			for _, s3 := range specs {
				ops := append(append([][2]int(nil), base...), [2]int{k, s3})
				var probes []int
				if rich {
					probes = specs
				} else {
					probes = []int{specs[i%len(specs)], specs[(i+4)%len(specs)]}
				}
				i++
				for _, pr := range probes {
					out = append(out, histB{kind: kind, ops: ops, probes: []int{pr}, label: fmt.Sprintf("F-long p=%d", p)})
				}
			}
		}
	}
	return out
}

func cKey1(b int) int { return 1<<24 | b<<16 }

var boundaryBytes = []int{0x00, 0x01, 0x7f, 0x80, 0xfe, 0xff}

// fanBytes: m distinct branch bytes: the boundary bytes first, then a seed-dependent fill.
func fanBytes(m int, seed int64, variant int) []int {
	used := map[int]bool{}
	var out []int
	for _, b := range boundaryBytes {
		// odd variants of small sets are entirely seed-chosen (stale-lane effects depend on the bit patterns)
		if len(out) < m && !(variant%2 == 1 && m <= 6) {
			out = append(out, b)
			used[b] = true
		}
	}
	x := uint64(seed)*6364136223846793005 + uint64(variant)*1442695040888963407 + 12345
	for len(out) < m {
		x = x*6364136223846793005 + 1442695040888963407
		b := int(x>>33) & 0xff
		if !used[b] {
			used[b] = true
			out = append(out, b)
		}
	}
	// variant-dependent insertion order (rotation), so that slot orders differ between variants
	r := variant % len(out)
	return append(out[r:], out[:r]...)
}

// fanBase: concrete ops that build a root with m children, optionally grown to `from` first and deleted down.
func fanBase(m, from int, seed int64, variant int, low int) [][2]int {
	n := m
	if from > m {
		n = from
	}
	bs := fanBytes(n, seed, variant)
	var ops [][2]int
	for _, b := range bs {
		ops = append(ops, [2]int{opInsertC, cKey1(b)})
	}
	if low != 0 {
		// shrink by deleting the smallest branch bytes (the first/last occupied slots of the node change), or the
		// largest ones (the lanes above the fan-out keep the removed maximum)
		sorted := append([]int(nil), bs...)
		sort.Ints(sorted)
		if low == 2 {
			for i, j := 0, len(sorted)-1; i < j; i, j = i+1, j-1 {
				sorted[i], sorted[j] = sorted[j], sorted[i]
			}
		}
		for i := 0; i < n-m; i++ {
			ops = append(ops, [2]int{opDeleteC, cKey1(sorted[i])})
		}
		return ops
	}
	for i := n - 1; i >= m; i-- {
		ops = append(ops, [2]int{opDeleteC, cKey1(bs[i])})
	}
	return ops
}

type fanShape struct {
	m, from int
	low     int // which siblings the shrink deletes: 0 the last inserted, 1 the smallest bytes, 2 the largest bytes
}

// fan shapes step through every growth and shrink threshold of the node classes.
func fanShapes(e *Engine, full bool) []fanShape {
	m4 := e.constInt("maxNode4", 4)
	m16 := e.constInt("maxNode16", 16)
	m48 := e.constInt("maxNode48", 48)
	out := []fanShape{{2, 0, 0}, {m4 - 1, 0, 0}, {m4, 0, 0}, {m16, 0, 0}, {m48, 0, 0}, // about to grow
		{m4, m4 + 1, 0}, {2, m4 + 1, 0}, // node16 shrunk back towards node4 and further
		{13, m16 + 1, 0}, {12, m16 + 1, 0}, // node48 -> node16 threshold
		{38, m48 + 1, 0}, {37, m48 + 1, 0}, // node256 -> node48 threshold
		{38, m48 + 1, 1}, {13, m16 + 1, 1}, {m4, m4 + 1, 1}, // the same, deleting the smallest bytes
		{m48 - 1, m48, 0}, {m16 - 1, m16, 1}, // a class filled to its limit, one child removed: the next add must find the freed slot
		{256, 0, 0},              // every byte value present: the uint8 fan-out counter of the node256 wraps to 0
		{2, m16, 0}, {6, m16, 2}, // a node16 that was full (every lane written), shrunk: stale lanes above the fan-out
	}
	if full {
		out = append(out, fanShape{m4 + 1, 0, 0}, fanShape{m16 - 1, 0, 0}, fanShape{m16 + 1, 0, 0}, fanShape{m48 - 1, 0, 0}, fanShape{m48 + 1, 0, 0},
			fanShape{3, m4 + 1, 0}, fanShape{1, m4, 0}, fanShape{m48 + 8, 0, 0}, fanShape{37, m48 + 1, 1}, fanShape{12, m16 + 1, 1}, fanShape{3, m4 + 1, 1},
			fanShape{3, m16, 0}, fanShape{2, m16, 1}, fanShape{6, m16, 1}, fanShape{6, m16, 0}, fanShape{m4, m16, 2}, fanShape{9, m16, 2}, fanShape{20, m48, 2})
	}
	return out
}

// fFan: concrete fan-out base, then symbolic ops over 1-byte keys and a probe.
// Small bases (<= 17 siblings): nSym symbolic Insert/Delete patterns and a symbolic probe.
// Big bases: (A) no symbolic update, symbolic probe; (B) one symbolic Insert, concrete probe;
// (C) one symbolic Delete, concrete probe — a symbolic update on a 48/256-way node is already a
// 256-way enumeration of the branch byte.
func fFan(c *CheckRun, kind int, nSym int, variants int, full bool) []histB {
	var out []histB
	for _, sh := range fanShapes(c.Eng, full) {
		nv := variants
		if nv < 2 && sh.m <= 5 && sh.from <= 5 {
			nv = 2 // small nodes: boundary bytes and a seed-chosen set
		}
		for v := 0; v < nv; v++ {
			base := fanBase(sh.m, sh.from, c.Seed, v, sh.low)
			label := fmt.Sprintf("F-fan m=%d from=%d v=%d", sh.m, sh.from, v)
			if sh.low == 1 {
				label = fmt.Sprintf("F-fan m=%d from=%d (smallest deleted) v=%d", sh.m, sh.from, v)
			} else if sh.low == 2 {
				label = fmt.Sprintf("F-fan m=%d from=%d (largest deleted) v=%d", sh.m, sh.from, v)
			}
			// two symbolic updates on a node48 are 256 x 256 concretised index stores, each followed by the walker
			// (measured: > 3 CPU-hours for one scenario): bases that touch node48 get the A/B/C patterns then
			// (the same when two symbolic inserts can carry a node16 over its limit: m >= 15)
			big := sh.m > 17 || sh.from > 17 || (nSym > 1 && (sh.m+1 >= 16 || sh.from > 16))
			if big {
				someByte := 0
				for _, o := range base {
					if o[0] == opInsertC {
						someByte = o[1]
					}
				}
				cp := someByte | 1<<30
				if sh.m > 200 {
					// the full 256-way node: every path re-executes 256 inserts, so only the update-free base with a concrete probe
					out = append(out, histB{kind: kind, ops: base, probes: []int{cp}, label: label + " A", big: true, noSym: true})
					continue
				}
				out = append(out, histB{kind: kind, ops: base, probes: []int{aSpec(0, 1)}, label: label + " A", big: true, noSym: true})
				out = append(out, histB{kind: kind, ops: append(append([][2]int(nil), base...), [2]int{opInsert, aSpec(0, 1)}), probes: []int{cp}, label: label + " B", big: true})
				out = append(out, histB{kind: kind, ops: append(append([][2]int(nil), base...), [2]int{opDelete, aSpec(0, 1)}), probes: []int{cp}, label: label + " C", big: true})
				continue
			}
			if sh.m > 8 || sh.from > 8 {
				// mid-size bases also get a variant without symbolic update (for checks whose probes fork heavily)
				out = append(out, histB{kind: kind, ops: base, probes: []int{aSpec(0, 1)}, label: label + " A", big: true, noSym: true})
			}
			var pats [][][2]int
			// a full node4 (and one shrunk back to 4) always gets the two-operation patterns: delete-then-insert
			// histories on stale lanes need both
			if nSym == 1 && sh.m != c.Eng.constInt("maxNode4", 4) {
				pats = [][][2]int{{{opInsert, aSpec(0, 1)}}, {{opDelete, aSpec(0, 1)}}}
			} else {
				pats = [][][2]int{
					{{opInsert, aSpec(0, 1)}, {opInsert, aSpec(0, 1)}},
					{{opInsert, aSpec(0, 1)}, {opDelete, aSpec(0, 1)}},
					{{opDelete, aSpec(0, 1)}, {opDelete, aSpec(0, 1)}},
					{{opDelete, aSpec(0, 1)}, {opInsert, aSpec(0, 1)}},
				}
			}
			for _, pat := range pats {
				ops := append(append([][2]int(nil), base...), pat...)
				out = append(out, histB{kind: kind, ops: ops, probes: []int{aSpec(0, 1)}, label: label, mid: sh.m > 8 || sh.from > 8})
			}
		}
	}
	return out
}

func cKeyStem(p, b int) int  { return 1<<29 | p<<16 | b }
func cKeyStemOnly(p int) int { return 1<<29 | 1<<28 | p<<16 }

// fFanStem: the fan-out node sits below the root and has a compressed path: keys stem(p)+b for m sibling bytes b
// plus the key stem(p) itself (its terminator occupies the 0x00 slot of the fan-out node), and one unrelated
// key so that the root branches. stem(p) is the concrete stem shared with the symbolic key shapes.
// Probes: the stem (concrete), stem + one symbolic byte, the stem with its last byte symbolic + one byte.
func fFanStem(c *CheckRun, kind int, full bool) []histB {
	var out []histB
	mp := c.Eng.constInt("maxPrefixLen", 10)
	type st struct {
		sh fanShape
		p  int
	}
	// the fan-out node holds m sibling children plus the stem key's terminator child: m+1 children
	shapes := []st{{fanShape{m: 17}, 1}, {fanShape{m: 49}, 1}, {fanShape{m: 11, from: 17}, mp + 2}, {fanShape{m: 36, from: 49}, mp + 1},
		{fanShape{m: 0, from: 5, low: 2}, 2}, {fanShape{m: 0, from: 17, low: 0}, 1}, {fanShape{m: 0, from: 49, low: 2}, mp + 1}} // every sibling deleted again, largest first: the node is left with the terminator child only
	if full {
		shapes = append(shapes, st{fanShape{m: 0, from: 16, low: 2}, mp + 1}, st{fanShape{m: 0, from: 5, low: 1}, 1})
		shapes = append(shapes, st{fanShape{m: 5}, mp + 2}, st{fanShape{m: 12, from: 17}, mp}, st{fanShape{m: 37, from: 49}, mp + 2}, st{fanShape{m: 47}, mp + 3},
			st{fanShape{m: 2, from: 5}, mp + 2}, st{fanShape{m: 17}, mp + 2}, st{fanShape{m: 49}, mp + 2}, st{fanShape{m: 1, from: 5}, mp + 1}, st{fanShape{m: 36, from: 49}, 3})
	}
	for _, s := range shapes {
		sh, p := s.sh, s.p
		tot := sh.m
		if sh.from > tot {
			tot = sh.from
		}
		var bs []int
		for _, b := range fanBytes(tot+1, c.Seed, 2) {
			if b != 0 && len(bs) < tot {
				bs = append(bs, b) // byte 0x00 is left to the terminator of the stem key itself
			}
		}
		var ops [][2]int
		ops = append(ops, [2]int{opInsertC, cKey1(0x10)})
		for _, b := range bs {
			ops = append(ops, [2]int{opInsertC, cKeyStem(p, b)})
		}
		ops = append(ops, [2]int{opInsertC, cKeyStemOnly(p)})
		del := append([]int(nil), bs...)
		if sh.low != 0 {
			sort.Ints(del) // deletions run from the end of del: largest first
			if sh.low == 1 {
				for i, j := 0, len(del)-1; i < j; i, j = i+1, j-1 {
					del[i], del[j] = del[j], del[i]
				}
			}
		}
		for i := tot - 1; i >= sh.m; i-- {
			ops = append(ops, [2]int{opDeleteC, cKeyStem(p, del[i])})
		}
		if sh.m == 0 {
			ops = append(ops, [2]int{opDeleteC, cKeyStemOnly(p)}) // nothing is left below the stem
		}
		label := fmt.Sprintf("F-fan-stem m=%d from=%d stem=%d", sh.m, sh.from, p)
		for _, pr := range []int{cKeyStemOnly(p) | 1<<30, aSpec(p, 1), aSpecMut(p, 1, p-1)} {
			out = append(out, histB{kind: kind, ops: ops, probes: []int{pr}, label: label, big: true, noSym: true, stem: p})
		}
		// one symbolic update under the stem, concrete probe
		out = append(out, histB{kind: kind, ops: append(append([][2]int(nil), ops...), [2]int{opDelete, aSpec(p, 1)}), probes: []int{cKeyStemOnly(p) | 1<<30}, label: label + " C", big: true, stem: p})
	}
	return out
}

// fLongDeep: like F-long but the long compressed path sits below a branch point (depth > 0): three keys
// [symbolic byte]+stem(p)+1 byte (the solver chooses which of them share their first byte), then one more
// operation with a key that carries the concrete stem byte first and diverges inside the stem.
func fLongDeep(kind int, stems []int, rich bool) []histB {
	var out []histB
	for _, p := range stems {
		m0 := aSpecMut(p+1, 1, 0)
		base := [][2]int{{opInsert, m0}, {opInsert, m0}, {opInsert, m0}}
		poss := []int{p / 2, p}
		if rich {
			poss = []int{1, p / 2, p - 1, p}
		}
		for _, pos := range poss {
			for _, k := range []int{opInsert, opDelete} {
				ops := append(append([][2]int(nil), base...), [2]int{k, aSpecMut(p+1, 1, pos)})
				out = append(out, histB{kind: kind, ops: ops, probes: []int{m0}, label: fmt.Sprintf("F-long-deep p=%d", p)})
			}
		}
	}
	return out
}

// fFanKind: fan-out bases for the other tree kinds (each kind has its own copy of Insert/Search/Delete):
// m concrete keys produced by conc(i) that branch at one node, optionally grown to `from` first and deleted
// down, then one symbolic update and a symbolic probe (small bases) or A/B/C patterns (big bases).
func fFanKind(kind int, harness string, conc func(i int) int, symSpec int, shapes []fanShape, outer *int) []*Scenario {
	var out []*Scenario
	for _, sh := range shapes {
		tot := sh.m
		if sh.from > tot {
			tot = sh.from
		}
		var ops [][2]int
		if outer != nil {
			// a key that differs from the fan in an earlier byte: the fan-out node is not the root, so growing,
			// shrinking or collapsing it must be written back into its parent's child slot
			ops = append(ops, [2]int{opInsertC, *outer})
		}
		for i := 0; i < tot; i++ {
			ops = append(ops, [2]int{opInsertC, conc(i)})
		}
		if sh.low == 1 {
			// the first inserted keys go: a node48 keeps holes in its low slots, the fan-out drops below the highest slot
			for i := 0; i < tot-sh.m; i++ {
				ops = append(ops, [2]int{opDeleteC, conc(i)})
			}
		} else {
			for i := tot - 1; i >= sh.m; i-- {
				ops = append(ops, [2]int{opDeleteC, conc(i)})
			}
		}
		label := fmt.Sprintf("F-fan-kind m=%d from=%d", sh.m, sh.from)
		if sh.low == 1 {
			label += " (first inserted deleted)"
		}
		if outer != nil {
			label += " below root"
		}
		// a stored key that survives the base (the last one inserted among them): probed concretely, because the
		// symbolic probe of the table-driven kinds (collation, compound) names a new key, not a stored one
		lastLive := conc(sh.m - 1)
		if sh.low == 1 {
			lastLive = conc(tot - 1)
		}
		var bs []histB
		if tot > 17 {
			bs = append(bs, histB{kind: kind, ops: ops, probes: []int{symSpec, lastLive | 1<<30}, label: label + " A", big: true, noSym: true})
			bs = append(bs, histB{kind: kind, ops: append(append([][2]int(nil), ops...), [2]int{opDelete, symSpec}), probes: []int{conc(0) | 1<<30}, label: label + " C", big: true})
		} else {
			if tot > 8 {
				bs = append(bs, histB{kind: kind, ops: ops, probes: []int{symSpec, lastLive | 1<<30}, label: label + " A", big: true, noSym: true})
			}
			if outer != nil && tot > 8 {
				goto emit // below the root the wide bases keep their update-free variant only
			}
			bs = append(bs, histB{kind: kind, ops: append(append([][2]int(nil), ops...), [2]int{opInsert, symSpec}), probes: []int{symSpec, lastLive | 1<<30}, label: label + " S"})
			bs = append(bs, histB{kind: kind, ops: append(append([][2]int(nil), ops...), [2]int{opDelete, symSpec}), probes: []int{symSpec}, label: label + " S"})
		}
	emit:
		for _, b := range bs {
			sc := b.scn()
			sc.Harness = harness
			sc.Label = b.label + "/" + kindNames[kind]
			out = append(out, sc)
		}
	}
	return out
}

var kindFanShapes = []fanShape{{m: 5}, {m: 17}, {m: 3, from: 5}, {m: 12, from: 17}, {m: 49}, {m: 17, from: 19, low: 1}, {m: 37, from: 49}}

// fanKinds: the non byte-string kinds with their concrete key generators.
func fanKinds(c *CheckRun, mask int, full bool) []*Scenario { return fanKindsOpt(c, mask, full, false) }

// cheapOnly drops the big bases that carry a symbolic update (for checks whose own probes are heavy).
func fanKindsOpt(c *CheckRun, mask int, full bool, cheapOnly bool) []*Scenario {
	shapes := kindFanShapes
	if !full {
		shapes = kindFanShapes[:6]
	}
	var out []*Scenario
	var curShapes []fanShape
	var curOuter *int
	add := func(kind int, harness string, conc func(i int) int, sym int) {
		sh := shapes
		if curShapes != nil {
			sh = curShapes
		}
		for _, s := range fFanKind(kind, harness, conc, sym, sh, curOuter) {
			if cheapOnly && (strings.Contains(s.Label, " C/") || (strings.Contains(s.Label, " S/") && len(s.Params) > 5+2*9)) {
				continue // bases of more than 8 keys keep only their update-free variant
			}
			s.Params[1] = mask
			if mask&ckMap == 0 {
				// drop the probe list (params: ... nOps ops nProbe probes)
				n := s.Params[4]
				s.Params = append(append([]int(nil), s.Params[:5+2*n]...), 0)
			}
			out = append(out, s)
		}
	}
	// uint8 / int8: one byte, the fan is the root; bytes straddle the sign boundary
	spread := func(i int) int { return (i*37 + 0x70) & 0xff }
	add(kindU8, "hHist", spread, 0)
	add(kindI8, "hHist", func(i int) int { return int(int8(spread(i))) }, 0)
	// uint16: fan on the second byte below a one-byte path
	add(kindU16, "hHist", func(i int) int { return 0x1200 | spread(i) }, 0)
	// float32 / int64: fan on an inner byte; the quick tier keeps the node48 and node256 bases only
	if !full {
		curShapes = []fanShape{{m: 17}, {m: 49}, {m: 17, from: 19, low: 1}}
	}
	add(kindF32, "hHist", func(i int) int { return 0x3f800000 | spread(i)<<8 }, 0)
	if full {
		add(kindI64, "hHist", func(i int) int { return spread(i) - 0x80 }, 0)
	}
	curShapes = nil
	// collation (generated strings with concrete collation keys) and compound table codec
	add(14, "hColl", func(i int) int { return 8 + i }, cSpec(0, 2))
	add(17, "hCompound", func(i int) int { return 8 + i }, cSpec(0, 2))
	// the same fans below the root (one more key that differs in an earlier byte), one kind per generated copy
	// and the collation tree: node4 collapse, 16->4, 48->16 (thorough: 256->48) of a non-root node
	curShapes = []fanShape{{m: 1, from: 2}, {m: 3, from: 5}, {m: 12, from: 17}}
	if full {
		curShapes = append(curShapes, fanShape{m: 37, from: 49}, fanShape{m: 5}, fanShape{m: 17})
	}
	outer := func(v int) *int { return &v }
	curOuter = outer(0x3400)
	add(kindU16, "hHist", func(i int) int { return 0x1200 | spread(i) }, 0)
	curOuter = outer(1 << 40)
	add(kindI64, "hHist", func(i int) int { return spread(i) - 0x80 }, 0)
	curOuter = outer(0x40400000)
	add(kindF32, "hHist", func(i int) int { return 0x3f800000 | spread(i)<<8 }, 0)
	curOuter = outer(71) // table entries 71 carry an encoding / collation key with another first byte
	add(14, "hColl", func(i int) int { return 8 + i }, cSpec(0, 2))
	add(17, "hCompound", func(i int) int { return 8 + i }, cSpec(0, 2))
	curShapes, curOuter = nil, nil
	if full {
		add(16, "hColl", func(i int) int { return 8 + i }, cSpec(3, 2))
	}
	return out
}
