package main

// Per-property check definitions: which scenarios each tier explores (DESIGN §4, §5).

import (
	"fmt"
)

const (
	ckMap = 1 << iota
	ckSize
	ckIter
	ckExt
	ckRange
	ckPrefix
	ckShape
	ckReiter
	ckPure
	ckRetain
	ckAlias
)

const (
	opInsert   = 0
	opDelete   = 1
	opInsertC  = 3 // insert a concrete key (spec packs up to 3 bytes: len<<24 | b0<<16 | b1<<8 | b2)
	opDeleteC  = 4
	kindAlphaB = 0
	kindAlphaS = 1
	kindU8     = 2
	kindU16    = 3
	kindU32    = 4
	kindU64    = 5
	kindUint   = 6
	kindI8     = 7
	kindI16    = 8
	kindI32    = 9
	kindI64    = 10
	kindInt    = 11
	kindF32    = 12
	kindF64    = 13
)

var kindNames = map[int]string{0: "alpha[]byte", 1: "alpha string", 2: "uint8", 3: "uint16", 4: "uint32", 5: "uint64", 6: "uint",
	7: "int8", 8: "int16", 9: "int32", 10: "int64", 11: "int", 12: "float32", 13: "float64", 14: "coll string", 15: "coll []byte", 16: "coll []rune", 17: "compound table", 18: "compound schema"}

type histB struct {
	kind, mask, kmode, pool int
	ops                     [][2]int
	probes                  []int
	extra                   []int
	known                   string
	label                   string
}

func (b histB) scn() *Scenario {
	p := []int{b.kind, b.mask, b.kmode, b.pool, len(b.ops)}
	for _, o := range b.ops {
		p = append(p, o[0], o[1])
	}
	p = append(p, len(b.probes))
	p = append(p, b.probes...)
	p = append(p, b.extra...)
	lbl := b.label
	if lbl == "" {
		lbl = "hist"
	}
	return &Scenario{Harness: "hHist", Params: p, Label: fmt.Sprintf("%s/%s", lbl, kindNames[b.kind]), Known: b.known}
}

// alpha key spec helpers (see harness/hist.go alphaKeyBytes)
func aSpec(stem, tail int) int         { return tail | stem<<4 }
func aSpecMut(stem, tail, pos int) int { return tail | stem<<4 | (pos+1)<<10 }

// opSeqs enumerates all sequences of n ops over {Insert,Delete} × specs; the first op is an Insert
// (a Delete on the empty tree is covered by the dedicated n=1 template).
func opSeqs(n int, specs []int, withDelete bool) [][][2]int {
	var out [][][2]int
	var rec func(cur [][2]int)
	rec = func(cur [][2]int) {
		if len(cur) == n {
			out = append(out, append([][2]int(nil), cur...))
			return
		}
		kinds := []int{opInsert}
		if withDelete && len(cur) > 0 {
			kinds = append(kinds, opDelete)
		}
		for _, k := range kinds {
			for _, s := range specs {
				rec(append(cur, [2]int{k, s}))
			}
		}
	}
	rec(nil)
	return out
}

// fShort: every op sequence of length n over key lengths lens, probes rotating (quick) or all (thorough).
func fShort(kind, mask, n int, lens []int, allProbes bool, kmode int) []*Scenario {
	var out []*Scenario
	specs := make([]int, len(lens))
	for i, l := range lens {
		specs[i] = aSpec(0, l)
	}
	for i, seq := range opSeqs(n, specs, true) {
		if allProbes {
			for _, ps := range specs {
				out = append(out, histB{kind: kind, mask: mask, kmode: kmode, ops: seq, probes: []int{ps}, label: fmt.Sprintf("F-short n=%d", n)}.scn())
			}
		} else {
			out = append(out, histB{kind: kind, mask: mask, kmode: kmode, ops: seq, probes: []int{specs[i%len(specs)]}, label: fmt.Sprintf("F-short n=%d", n)}.scn())
		}
	}
	return out
}

// fNum: numeric kinds: n symbolic ops (all Insert/Delete patterns, first is Insert), one probe.
func fNum(kind, mask, n int) []*Scenario {
	var out []*Scenario
	for _, seq := range opSeqs(n, []int{0}, true) {
		out = append(out, histB{kind: kind, mask: mask, ops: seq, probes: []int{0}, label: fmt.Sprintf("F-num n=%d", n)}.scn())
	}
	return out
}

var checkSpecs = map[string]*CheckSpec{}

func register(s *CheckSpec) { checkSpecs[s.ID] = s }

func init() {
	register(&CheckSpec{
		ID: "C01", Level: "model_checking", Summaries: true,
		Rule: "every template (operation kinds + key lengths) of the listed families is explored exhaustively over all key bytes / key values / stored values; a state is a finished symbolic path (one equivalence class of concrete histories), a transition is one API call on it",
		Scenarios: func(c *CheckRun) []*Scenario {
			mask := ckMap
			var out []*Scenario
			if c.Tier == "quick" {
				out = append(out, fShort(kindAlphaB, mask, 1, []int{0, 1, 2}, true, 0)...)
				out = append(out, fShort(kindAlphaB, mask, 2, []int{0, 1, 2}, true, 0)...)
				out = append(out, fShort(kindAlphaB, mask, 3, []int{0, 1, 2}, false, 0)...)
				out = append(out, fShort(kindAlphaS, mask, 2, []int{0, 1, 2}, false, 0)...)
				for _, k := range []int{kindU8, kindI64, kindF32} {
					out = append(out, fNum(k, mask, 3)...)
				}
			}
			return out
		},
		Bounds:  []string{"see scenario list"},
		Outside: []string{"histories longer than the templates"},
	})
}
