package main

// The symbolic executor: interprets go/ssa over Values, forking through the decision-prefix protocol.

import (
	"fmt"
	"go/constant"
	"go/token"
	"go/types"
	"math"
	"strings"
	"sync"
	"time"
	"unicode/utf8"

	"golang.org/x/tools/go/ssa"
)

var qSites = map[string]int{}
var qsMu sync.Mutex

type abortKind int

const (
	abKilled abortKind = iota // assumption false / infeasible: not an error
	abInconclusive
	abStop // path ended after a reported violation
)

type pathAbort struct {
	kind abortKind
	msg  string
}

type Trace struct {
	tag string
	val *Term
}

type Violation struct {
	Kind   string // "assert", "fault", "fail"
	Tag    string
	Where  string
	Model  Model
	Tape   []TapeEntry
	Params []int
	Scn    *Scenario
	PCSize int
}

type TapeEntry struct {
	W uint8  `json:"w"`
	V uint64 `json:"v"`
}

type WorkItem struct {
	scn       *Scenario
	decisions []int64
	model     Model
}

type Path struct {
	eng    *Engine
	ts     *TermStore
	solver *Solver
	scn    *Scenario

	pc       []*Term
	asserted int
	declVars int
	inScope  bool

	decisions []int64
	nDec      int
	taken     []int64
	models    []*pModel
	pending   []pendingCheck
	vars      []*Term

	known     map[*Term]uint64
	substMemo map[*Term]*Term

	globals  map[*ssa.Global]*Cell
	pools    map[*Cell][]Value
	strCache map[string]*Cell

	steps    int
	maxSteps int
	objects  []*Object
	nextObj  int
	curOwner int

	traces     []Trace
	newWork    []WorkItem
	violations []Violation
	sawUnknown bool
	apiCalls   int
	stack      []*ssa.Function
	curInstr   ssa.Instruction

	obs *Observers // optional heap observers (C13/C15/C16/C17/C18)
	cov map[*ssa.BasicBlock]bool

	collTable  map[string][]*Term // collation stub: original string -> key bytes
	poolFresh  bool
	assumed    int
	solverWall time.Duration
	asserts    int
	notes      []string
	fnsSeen    map[*ssa.Function]bool
}

func (p *Path) abort(kind abortKind, format string, args ...interface{}) {
	panic(pathAbort{kind, fmt.Sprintf(format, args...)})
}

func (p *Path) unsupported(format string, args ...interface{}) {
	where := ""
	if p.curInstr != nil {
		where = " at " + p.where()
	}
	panic(pathAbort{abInconclusive, "unsupported: " + fmt.Sprintf(format, args...) + where})
}

func (p *Path) where() string {
	if p.curInstr == nil {
		return "?"
	}
	fn := p.curInstr.Parent()
	pos := p.eng.prog.Fset.Position(p.curInstr.Pos())
	if !pos.IsValid() && fn != nil {
		pos = p.eng.prog.Fset.Position(fn.Pos())
	}
	name := "?"
	if fn != nil {
		name = fn.String()
	}
	return fmt.Sprintf("%s (%s:%d)", name, shortFile(pos.Filename), pos.Line)
}

func shortFile(f string) string {
	if i := strings.LastIndex(f, "/"); i >= 0 {
		return f[i+1:]
	}
	return f
}

// ---------------------------------------------------------------------------------------------
// Frames and the interpreter loop

type fnInfo struct {
	index map[ssa.Value]int
	n     int
}

type Frame struct {
	fn     *ssa.Function
	info   *fnInfo
	locals []Value
	env    []Value
}

func (e *Engine) info(fn *ssa.Function) *fnInfo {
	if v, ok := e.fnInfos.Load(fn); ok {
		return v.(*fnInfo)
	}
	fi := &fnInfo{index: map[ssa.Value]int{}}
	for _, par := range fn.Params {
		fi.index[par] = fi.n
		fi.n++
	}
	for _, fv := range fn.FreeVars {
		fi.index[fv] = fi.n
		fi.n++
	}
	for _, b := range fn.Blocks {
		for _, ins := range b.Instrs {
			if v, ok := ins.(ssa.Value); ok {
				fi.index[v] = fi.n
				fi.n++
			}
		}
	}
	act, _ := e.fnInfos.LoadOrStore(fn, fi)
	return act.(*fnInfo)
}

func (p *Path) get(fr *Frame, v ssa.Value) Value {
	switch x := v.(type) {
	case *ssa.Const:
		return p.constValue(x)
	case *ssa.Global:
		return Ptr{p.global(x)}
	case *ssa.Function:
		return FuncV{fn: x}
	case *ssa.Builtin:
		return FuncV{builtin: x.Name()}
	}
	i, ok := fr.info.index[v]
	if !ok {
		p.unsupported("unknown ssa value %T %v", v, v)
	}
	r := fr.locals[i]
	if r == nil {
		p.unsupported("use of unset value %s in %s", v.Name(), fr.fn)
	}
	return r
}

func (p *Path) global(g *ssa.Global) *Cell {
	if c, ok := p.globals[g]; ok {
		return c
	}
	t := g.Type().(*types.Pointer).Elem()
	c := p.newObject(t, "global "+g.String())
	c.obj.owner = ownerGlobal
	p.globals[g] = c
	return c
}

func (p *Path) constValue(c *ssa.Const) Value {
	t := c.Type()
	if c.Value == nil {
		return p.zero(t)
	}
	switch u := t.Underlying().(type) {
	case *types.Basic:
		switch {
		case u.Info()&types.IsBoolean != 0:
			return p.ts.Bool(constant.BoolVal(c.Value))
		case u.Info()&types.IsString != 0:
			return p.strConst(constant.StringVal(c.Value))
		case u.Info()&types.IsInteger != 0:
			w := p.widthOf(t)
			if i, ok := constant.Int64Val(constant.ToInt(c.Value)); ok {
				return p.ts.Const(w, uint64(i))
			}
			if ui, ok := constant.Uint64Val(constant.ToInt(c.Value)); ok {
				return p.ts.Const(w, ui)
			}
		case u.Info()&types.IsFloat != 0:
			f, _ := constant.Float64Val(c.Value)
			if p.widthOf(t) == 32 {
				return p.ts.Const(32, uint64(math.Float32bits(float32(f))))
			}
			return p.ts.Const(64, math.Float64bits(f))
		}
	}
	p.unsupported("constant %v of type %v", c.Value, t)
	return nil
}

func (p *Path) strConst(s string) Value {
	if s == "" {
		return StrV{}
	}
	if c, ok := p.strCache[s]; ok {
		return StrV{arr: c, off: 0, len: len(s)}
	}
	saved := p.curOwner
	p.curOwner = ownerGlobal
	arr := p.newArray(types.Typ[types.Uint8], len(s), "strconst")
	p.curOwner = saved
	for i := 0; i < len(s); i++ {
		arr.kids[i].val = p.ts.Const(8, uint64(s[i]))
	}
	p.strCache[s] = arr
	return StrV{arr: arr, off: 0, len: len(s)}
}

// concreteString extracts a Go string from a string value whose bytes are all constants.
func (p *Path) concreteString(v Value) (string, bool) {
	s, ok := v.(StrV)
	if !ok {
		return "", false
	}
	b := make([]byte, s.len)
	for i := 0; i < s.len; i++ {
		t := p.simp(s.arr.kids[s.off+i].val.(*Term))
		if t.op != OConst {
			return "", false
		}
		b[i] = byte(t.k)
	}
	return string(b), true
}

func (p *Path) callFunction(fn *ssa.Function, args []Value, env []Value) Value {
	if fn.Blocks == nil {
		return p.callExternal(fn, args)
	}
	if len(p.stack) > 200 {
		p.unsupported("call depth exceeds 200")
	}
	if p.fnsSeen == nil {
		p.fnsSeen = map[*ssa.Function]bool{}
	}
	p.fnsSeen[fn] = true
	fi := p.eng.info(fn)
	fr := &Frame{fn: fn, info: fi, locals: make([]Value, fi.n), env: env}
	for i := range fn.Params {
		fr.locals[i] = args[i]
	}
	for i := range fn.FreeVars {
		fr.locals[len(fn.Params)+i] = env[i]
	}
	p.stack = append(p.stack, fn)
	savedInstr := p.curInstr
	defer func() {
		p.stack = p.stack[:len(p.stack)-1]
		p.curInstr = savedInstr
	}()
	var prev *ssa.BasicBlock
	blk := fn.Blocks[0]
	skipPhis, mergedPhis := false, false
	for {
		if p.cov != nil {
			p.cov[blk] = true
		}
		var next *ssa.BasicBlock
		for _, ins := range blk.Instrs {
			p.steps++
			if p.steps > p.maxSteps {
				p.abort(abInconclusive, "unwinding assertion: step budget %d exceeded in %s", p.maxSteps, fn)
			}
			p.curInstr = ins
			switch x := ins.(type) {
			case *ssa.Phi:
				if skipPhis {
					continue // already merged by the if-conversion that brought us here
				}
				for i, pred := range blk.Preds {
					if pred == prev {
						fr.locals[fi.index[x]] = p.get(fr, x.Edges[i])
						break
					}
				}
			case *ssa.If:
				c := p.simp(p.get(fr, x.Cond).(*Term))
				if c.op != OConst {
					if j := p.ifConvert(fr, blk, c); j != nil {
						next = j
						mergedPhis = true
						break
					}
				}
				if p.branch(c) {
					next = blk.Succs[0]
				} else {
					next = blk.Succs[1]
				}
			case *ssa.Jump:
				next = blk.Succs[0]
			case *ssa.Return:
				switch len(x.Results) {
				case 0:
					return nil
				case 1:
					return p.get(fr, x.Results[0])
				}
				tv := make(TupleV, len(x.Results))
				for i, r := range x.Results {
					tv[i] = p.get(fr, r)
				}
				return tv
			case *ssa.Panic:
				msg := "panic"
				if iv, ok := p.get(fr, x.X).(IfaceV); ok {
					if s, ok := p.concreteString(iv.v); ok {
						msg = "panic: " + s
					}
				}
				p.faultNow(msg)
			case *ssa.Store:
				p.storeThrough(p.get(fr, x.Addr), p.get(fr, x.Val))
			case *ssa.DebugRef:
			case *ssa.RunDefers:
			case ssa.Value:
				fr.locals[fi.index[x]] = p.evalInstr(fr, x)
			default:
				p.unsupported("instruction %T", ins)
			}
		}
		if next == nil {
			p.unsupported("block without terminator in %s", fn)
		}
		skipPhis = mergedPhis
		mergedPhis = false
		prev, blk = blk, next
	}
}

// ---------------------------------------------------------------------------------------------
// Loads and stores through pointers

func (p *Path) resolveIdx(ip IdxPtr) (Value, bool) {
	t := p.simp(ip.idx)
	if t.op == OConst {
		i := int(sext64(t.k, t.w))
		if i < 0 || i >= ip.n {
			p.faultNow("index out of range")
		}
		return Ptr{descend(ip.arr.kids[ip.off+i], ip.path)}, true
	}
	return nil, false
}

func (p *Path) idxEq(ip IdxPtr, i int) *Term {
	return p.ts.Eq(ip.idx, p.ts.Const(ip.idx.w, uint64(i)))
}

func (p *Path) loadThrough(ptr Value) Value {
	switch x := ptr.(type) {
	case Ptr:
		if x.c == nil {
			p.faultNow("nil pointer dereference")
		}
		return p.load(x.c)
	case IdxPtr:
		if r, ok := p.resolveIdx(x); ok {
			return p.load(r.(Ptr).c)
		}
		return p.loadIdx(x)
	}
	p.unsupported("load through %T", ptr)
	return nil
}

func (p *Path) loadIdx(ip IdxPtr) Value {
	// gather element values
	vals := make([]Value, ip.n)
	for i := 0; i < ip.n; i++ {
		c := descend(ip.arr.kids[ip.off+i], ip.path)
		p.noteRead(c)
		vals[i] = p.loadRaw(c)
	}
	// group by skeleton
	var groups [][]int
	for i := 0; i < ip.n; i++ {
		placed := false
		for g := range groups {
			if skeletonIdentical(vals[groups[g][0]], vals[i]) {
				groups[g] = append(groups[g], i)
				placed = true
				break
			}
		}
		if !placed {
			groups = append(groups, []int{i})
		}
	}
	gi := 0
	if len(groups) > 1 {
		alts := make([]*Term, len(groups))
		for g, idxs := range groups {
			c := p.ts.False
			for _, i := range idxs {
				c = p.ts.Or(c, p.idxEq(ip, i))
			}
			alts[g] = c
		}
		gi = p.choose(alts)
	}
	idxs := groups[gi]
	if len(idxs) == 1 {
		// the index is now known
		return vals[idxs[0]]
	}
	return p.mergeByIndex(ip, idxs, vals)
}

// mergeByIndex builds, for values with identical skeleton, the ite-merge of the scalar leaves.
func (p *Path) mergeByIndex(ip IdxPtr, idxs []int, vals []Value) Value {
	first := vals[idxs[0]]
	switch x := first.(type) {
	case *Term:
		// group equal terms to keep the chain short
		type grp struct {
			t    *Term
			cond *Term
		}
		var gs []grp
		for _, i := range idxs {
			t := vals[i].(*Term)
			found := false
			for g := range gs {
				if gs[g].t == t {
					gs[g].cond = p.ts.Or(gs[g].cond, p.idxEq(ip, i))
					found = true
					break
				}
			}
			if !found {
				gs = append(gs, grp{t, p.idxEq(ip, i)})
			}
		}
		// the largest group becomes the default arm
		big := 0
		cnt := map[*Term]int{}
		for _, i := range idxs {
			cnt[vals[i].(*Term)]++
		}
		for g := range gs {
			if cnt[gs[g].t] > cnt[gs[big].t] {
				big = g
			}
		}
		res := gs[big].t
		for g := range gs {
			if g != big {
				res = p.ts.Ite(gs[g].cond, gs[g].t, res)
			}
		}
		return res
	case AggV:
		out := AggV{elems: make([]Value, len(x.elems))}
		for f := range x.elems {
			sub := make([]Value, len(vals))
			for _, i := range idxs {
				sub[i] = vals[i].(AggV).elems[f]
			}
			out.elems[f] = p.mergeByIndex(ip, idxs, sub)
		}
		return out
	}
	return first
}

func (p *Path) concretizeIdx(ip IdxPtr) *Cell {
	if r, ok := p.resolveIdx(ip); ok {
		return r.(Ptr).c
	}
	v := p.concretize(ip.idx, "array index")
	i := int(sext64(v, ip.idx.w))
	if i < 0 || i >= ip.n {
		p.faultNow("index out of range")
	}
	return descend(ip.arr.kids[ip.off+i], ip.path)
}

func (p *Path) storeThrough(ptr Value, v Value) {
	switch x := ptr.(type) {
	case Ptr:
		if x.c == nil {
			p.faultNow("nil pointer dereference")
		}
		p.store(x.c, v)
		return
	case IdxPtr:
		if r, ok := p.resolveIdx(x); ok {
			p.store(r.(Ptr).c, v)
			return
		}
		if t, ok := v.(*Term); ok && x.n <= 32 {
			for i := 0; i < x.n; i++ {
				c := descend(x.arr.kids[x.off+i], x.path)
				p.noteWrite(c)
				old := c.val.(*Term)
				c.val = p.ts.Ite(p.idxEq(x, i), t, old)
			}
			return
		}
		p.store(p.concretizeIdx(x), v)
		return
	}
	p.unsupported("store through %T", ptr)
}

// ptrCell forces a pointer value to a concrete cell.
func (p *Path) ptrCell(v Value) *Cell {
	switch x := v.(type) {
	case Ptr:
		return x.c
	case IdxPtr:
		return p.concretizeIdx(x)
	}
	p.unsupported("pointer expected, got %T", v)
	return nil
}

// ---------------------------------------------------------------------------------------------
// Instruction evaluation

func (p *Path) evalInstr(fr *Frame, ins ssa.Value) Value {
	switch x := ins.(type) {
	case *ssa.Alloc:
		c := p.newObject(x.Type().(*types.Pointer).Elem(), "alloc "+x.Comment)
		return Ptr{c}
	case *ssa.BinOp:
		return p.binop(x.Op, p.get(fr, x.X), p.get(fr, x.Y), x.X.Type(), x.Y.Type())
	case *ssa.UnOp:
		v := p.get(fr, x.X)
		switch x.Op {
		case token.MUL:
			return p.loadThrough(v)
		case token.NOT:
			return p.ts.Not(v.(*Term))
		case token.SUB:
			if isFloat(x.X.Type()) {
				t := v.(*Term)
				return p.ts.Bin(OBvXor, t, p.ts.Const(t.w, uint64(1)<<(t.w-1)))
			}
			return p.ts.BvNeg(v.(*Term))
		case token.XOR:
			return p.ts.BvNot(v.(*Term))
		}
		p.unsupported("unop %v", x.Op)
	case *ssa.Call:
		return p.doCall(fr, x.Common())
	case *ssa.ChangeType:
		return p.get(fr, x.X)
	case *ssa.ChangeInterface:
		return p.get(fr, x.X)
	case *ssa.Convert:
		return p.convert(p.get(fr, x.X), x.X.Type(), x.Type())
	case *ssa.Extract:
		return p.get(fr, x.Tuple).(TupleV)[x.Index]
	case *ssa.Field:
		return p.get(fr, x.X).(AggV).elems[x.Field]
	case *ssa.FieldAddr:
		switch b := p.get(fr, x.X).(type) {
		case Ptr:
			if b.c == nil {
				p.faultNow("nil pointer dereference")
			}
			if x.Field >= len(b.c.kids) {
				p.unsupported("field %d of cell %v", x.Field, b.c.typ)
			}
			return Ptr{b.c.kids[x.Field]}
		case IdxPtr:
			if r, ok := p.resolveIdx(b); ok {
				return Ptr{r.(Ptr).c.kids[x.Field]}
			}
			np := make([]int, len(b.path)+1)
			copy(np, b.path)
			np[len(b.path)] = x.Field
			b.path = np
			return b
		}
		p.unsupported("fieldaddr base")
	case *ssa.Index:
		base := p.get(fr, x.X)
		idx := p.get(fr, x.Index).(*Term)
		switch b := base.(type) {
		case AggV:
			idx = p.simp(idx)
			if idx.op == OConst {
				i := int(sext64(idx.k, idx.w))
				if i < 0 || i >= len(b.elems) {
					p.faultNow("index out of range")
				}
				return b.elems[i]
			}
			p.faultIf(p.ts.Not(p.ts.Ult(p.toWord(idx, x.Index.Type()), p.word(uint64(len(b.elems))))), "index out of range")
			i := int(p.concretize(idx, "array value index"))
			return b.elems[i]
		case StrV:
			return p.loadThrough(p.indexAddr(b.arr, b.off, b.len, idx, x.Index.Type()))
		}
		p.unsupported("index on %T", base)
	case *ssa.IndexAddr:
		base := p.get(fr, x.X)
		idx := p.get(fr, x.Index).(*Term)
		switch b := base.(type) {
		case SliceV:
			return p.indexAddr(b.arr, b.off, b.len, idx, x.Index.Type())
		case Ptr:
			if b.c == nil {
				p.faultNow("nil pointer dereference")
			}
			return p.indexAddr(b.c, 0, len(b.c.kids), idx, x.Index.Type())
		case IdxPtr:
			c := p.concretizeIdx(b)
			return p.indexAddr(c, 0, len(c.kids), idx, x.Index.Type())
		}
		p.unsupported("indexaddr on %T", base)
	case *ssa.MakeClosure:
		env := make([]Value, len(x.Bindings))
		for i, b := range x.Bindings {
			env[i] = p.get(fr, b)
		}
		return FuncV{fn: x.Fn.(*ssa.Function), env: env}
	case *ssa.MakeInterface:
		return IfaceV{typ: x.X.Type(), v: p.get(fr, x.X)}
	case *ssa.MakeSlice:
		n := p.concreteInt(p.get(fr, x.Len), "make len")
		c := p.concreteInt(p.get(fr, x.Cap), "make cap")
		if n < 0 || c < n {
			p.faultNow("makeslice: len out of range")
		}
		et := x.Type().Underlying().(*types.Slice).Elem()
		arr := p.newArray(et, c, "makeslice")
		return SliceV{arr: arr, off: 0, len: n, cap: c}
	case *ssa.Slice:
		return p.sliceOp(fr, x)
	case *ssa.TypeAssert:
		return p.typeAssert(p.get(fr, x.X), x)
	case *ssa.Lookup:
		p.unsupported("map lookup")
	case *ssa.SliceToArrayPointer:
		s := p.get(fr, x.X).(SliceV)
		n := int(x.Type().(*types.Pointer).Elem().Underlying().(*types.Array).Len())
		if s.len < n {
			p.faultNow("slice to array pointer: length too short")
		}
		if s.arr != nil && s.off == 0 && len(s.arr.kids) == n {
			return Ptr{s.arr}
		}
		p.unsupported("slice to array pointer with offset")
	}
	p.unsupported("instruction %T", ins)
	return nil
}

func (p *Path) word(v uint64) *Term { return p.ts.Const(uint8(p.eng.wordBits), v) }

// toWord converts an integer term of Go type t to machine-word width.
func (p *Path) toWord(x *Term, t types.Type) *Term {
	w := uint8(p.eng.wordBits)
	if x.w == w {
		return x
	}
	if x.w > w {
		return p.ts.Extract(x, int(w)-1, 0)
	}
	if isSigned(t) {
		return p.ts.Sext(x, w)
	}
	return p.ts.Zext(x, w)
}

func (p *Path) concreteInt(v Value, what string) int {
	t := p.simp(v.(*Term))
	if t.op != OConst {
		return int(sext64(p.concretize(t, what), t.w))
	}
	return int(sext64(t.k, t.w))
}

func (p *Path) indexAddr(arr *Cell, off, n int, idx *Term, it types.Type) Value {
	idx = p.simp(idx)
	if idx.op == OConst {
		i := sext64(idx.k, idx.w)
		if !isSigned(it) {
			i = int64(idx.k)
			if idx.k > uint64(math.MaxInt32) {
				i = -1
			}
		}
		if i < 0 || i >= int64(n) {
			p.faultNow("index out of range")
		}
		return Ptr{arr.kids[off+int(i)]}
	}
	wi := p.toWord(idx, it)
	p.faultIf(p.ts.Not(p.ts.Ult(wi, p.word(uint64(n)))), "index out of range")
	if n == 1 {
		return Ptr{arr.kids[off]}
	}
	return IdxPtr{arr: arr, off: off, n: n, idx: wi}
}

func (p *Path) sliceOp(fr *Frame, x *ssa.Slice) Value {
	base := p.get(fr, x.X)
	var arr *Cell
	var boff, blen, bcap int
	isStr := false
	switch b := base.(type) {
	case SliceV:
		arr, boff, blen, bcap = b.arr, b.off, b.len, b.cap
	case StrV:
		arr, boff, blen, bcap = b.arr, b.off, b.len, b.len
		isStr = true
	case Ptr:
		if b.c == nil {
			p.faultNow("nil pointer dereference")
		}
		arr, boff, blen, bcap = b.c, 0, len(b.c.kids), len(b.c.kids)
	case IdxPtr:
		c := p.concretizeIdx(b)
		arr, boff, blen, bcap = c, 0, len(c.kids), len(c.kids)
	default:
		p.unsupported("slice of %T", base)
	}
	lo, hi, mx := 0, blen, bcap
	if x.Low != nil {
		lo = p.boundInt(p.get(fr, x.Low), x.Low.Type(), bcap)
	}
	if x.High != nil {
		hi = p.boundInt(p.get(fr, x.High), x.High.Type(), bcap)
	}
	if x.Max != nil {
		mx = p.boundInt(p.get(fr, x.Max), x.Max.Type(), bcap)
	}
	if isStr {
		if lo < 0 || lo > hi || hi > blen {
			p.faultNow("slice bounds out of range")
		}
		return StrV{arr: arr, off: boff + lo, len: hi - lo}
	}
	if lo < 0 || lo > hi || hi > mx || mx > bcap {
		p.faultNow("slice bounds out of range")
	}
	if arr == nil {
		return SliceV{}
	}
	return SliceV{arr: arr, off: boff + lo, len: hi - lo, cap: mx - lo}
}

// boundInt concretizes a slice bound; values outside [0,limit] are reported as limit+1 / -1.
func (p *Path) boundInt(v Value, t types.Type, limit int) int {
	tm := p.simp(v.(*Term))
	if tm.op != OConst {
		w := p.toWord(tm, t)
		p.faultIf(p.ts.Not(p.ts.Ule(w, p.word(uint64(limit)))), "slice bounds out of range")
		return int(p.concretize(w, "slice bound"))
	}
	if isSigned(t) {
		return int(sext64(tm.k, tm.w))
	}
	if tm.k > uint64(math.MaxInt32) {
		return -1
	}
	return int(tm.k)
}

func (p *Path) typeAssert(v Value, x *ssa.TypeAssert) Value {
	iv, ok := v.(IfaceV)
	if !ok {
		p.unsupported("type assert on %T", v)
	}
	var match bool
	var res Value
	if iv.typ != nil {
		if types.IsInterface(x.AssertedType) {
			match = types.Implements(iv.typ, x.AssertedType.Underlying().(*types.Interface))
			res = iv
		} else {
			match = types.Identical(iv.typ, x.AssertedType)
			res = iv.v
		}
	}
	if x.CommaOk {
		if !match {
			res = p.zero(x.AssertedType)
		}
		return TupleV{res, p.ts.Bool(match)}
	}
	if !match {
		p.faultNow("interface conversion: type assertion failed")
	}
	return res
}

// ---------------------------------------------------------------------------------------------
// Binary operations

func (p *Path) binop(op token.Token, xv, yv Value, xt, yt types.Type) Value {
	switch x := xv.(type) {
	case *Term:
		y := yv.(*Term)
		return p.binopTerm(op, x, y, xt, yt)
	case Ptr, IdxPtr:
		eq := p.pointerEq(xv, yv)
		switch op {
		case token.EQL:
			return p.ts.Bool(eq)
		case token.NEQ:
			return p.ts.Bool(!eq)
		}
	case StrV:
		y := yv.(StrV)
		switch op {
		case token.ADD:
			arr := p.newArray(types.Typ[types.Uint8], x.len+y.len, "strconcat")
			for i := 0; i < x.len; i++ {
				arr.kids[i].val = x.arr.kids[x.off+i].val
			}
			for i := 0; i < y.len; i++ {
				arr.kids[x.len+i].val = y.arr.kids[y.off+i].val
			}
			return StrV{arr: arr, len: x.len + y.len}
		case token.EQL:
			return p.bytesEq(x.arr, x.off, x.len, y.arr, y.off, y.len)
		case token.NEQ:
			return p.ts.Not(p.bytesEq(x.arr, x.off, x.len, y.arr, y.off, y.len))
		case token.LSS:
			return p.bytesLess(x.arr, x.off, x.len, y.arr, y.off, y.len, false)
		case token.LEQ:
			return p.bytesLess(x.arr, x.off, x.len, y.arr, y.off, y.len, true)
		case token.GTR:
			return p.bytesLess(y.arr, y.off, y.len, x.arr, x.off, x.len, false)
		case token.GEQ:
			return p.bytesLess(y.arr, y.off, y.len, x.arr, x.off, x.len, true)
		}
	case IfaceV:
		y, ok := yv.(IfaceV)
		if ok {
			var eq bool
			if x.typ == nil || y.typ == nil {
				eq = x.typ == nil && y.typ == nil
			} else {
				p.unsupported("comparison of non-nil interfaces")
			}
			if op == token.EQL {
				return p.ts.Bool(eq)
			}
			if op == token.NEQ {
				return p.ts.Bool(!eq)
			}
		}
	case FuncV:
		y, ok := yv.(FuncV)
		if ok && (x.fn == nil && x.builtin == "" || y.fn == nil && y.builtin == "") {
			eq := x.fn == nil && x.builtin == "" && y.fn == nil && y.builtin == ""
			if op == token.EQL {
				return p.ts.Bool(eq)
			}
			if op == token.NEQ {
				return p.ts.Bool(!eq)
			}
		}
	case SliceV:
		y, ok := yv.(SliceV)
		if ok && (x.arr == nil || y.arr == nil) {
			eq := x.arr == nil && y.arr == nil
			if op == token.EQL {
				return p.ts.Bool(eq)
			}
			if op == token.NEQ {
				return p.ts.Bool(!eq)
			}
		}
	case AggV:
		y := yv.(AggV)
		eq := p.aggEq(x, y, xt)
		if op == token.EQL {
			return eq
		}
		if op == token.NEQ {
			return p.ts.Not(eq)
		}
	}
	p.unsupported("binop %v on %T,%T", op, xv, yv)
	return nil
}

func (p *Path) aggEq(x, y AggV, t types.Type) *Term {
	res := p.ts.True
	for i := range x.elems {
		var et types.Type
		switch u := t.Underlying().(type) {
		case *types.Struct:
			et = u.Field(i).Type()
		case *types.Array:
			et = u.Elem()
		}
		res = p.ts.And(res, p.binop(token.EQL, x.elems[i], y.elems[i], et, et).(*Term))
	}
	return res
}

func (p *Path) pointerEq(xv, yv Value) bool {
	xp, xok := xv.(Ptr)
	yp, yok := yv.(Ptr)
	if xok && yok {
		return p.ptrEqual(xp, yp)
	}
	// IdxPtr is never nil
	if xok && xp.c == nil || yok && yp.c == nil {
		return false
	}
	return p.ptrEqual(Ptr{p.ptrCell(xv)}, Ptr{p.ptrCell(yv)})
}

func (p *Path) binopTerm(op token.Token, x, y *Term, xt, yt types.Type) Value {
	ts := p.ts
	if x.w == 0 {
		switch op {
		case token.EQL:
			return ts.Eq(x, y)
		case token.NEQ:
			return ts.Ne(x, y)
		case token.AND, token.LAND:
			return ts.And(x, y)
		case token.OR, token.LOR:
			return ts.Or(x, y)
		}
		p.unsupported("bool binop %v", op)
	}
	if isFloat(xt) {
		switch op {
		case token.EQL:
			return ts.FCmp(OFEq, x, y)
		case token.NEQ:
			return ts.Not(ts.FCmp(OFEq, x, y))
		case token.LSS:
			return ts.FCmp(OFLt, x, y)
		case token.LEQ:
			return ts.FCmp(OFLe, x, y)
		case token.GTR:
			return ts.FCmp(OFLt, y, x)
		case token.GEQ:
			return ts.FCmp(OFLe, y, x)
		}
		if x.op == OConst && y.op == OConst {
			a, b := fbits(x.w, x.k), fbits(y.w, y.k)
			var r float64
			switch op {
			case token.ADD:
				r = a + b
			case token.SUB:
				r = a - b
			case token.MUL:
				r = a * b
			case token.QUO:
				r = a / b
			default:
				p.unsupported("float binop %v", op)
			}
			if x.w == 32 {
				return ts.Const(32, uint64(math.Float32bits(float32(r))))
			}
			return ts.Const(64, math.Float64bits(r))
		}
		p.unsupported("symbolic float arithmetic %v", op)
	}
	signed := isSigned(xt)
	switch op {
	case token.ADD:
		return ts.Bin(OAdd, x, y)
	case token.SUB:
		return ts.Bin(OSub, x, y)
	case token.MUL:
		return ts.Bin(OMul, x, y)
	case token.QUO, token.REM:
		p.faultIf(ts.Eq(y, ts.Const(y.w, 0)), "integer divide by zero")
		if signed {
			if op == token.QUO {
				return ts.Bin(OSdiv, x, y)
			}
			return ts.Bin(OSrem, x, y)
		}
		if op == token.QUO {
			return ts.Bin(OUdiv, x, y)
		}
		return ts.Bin(OUrem, x, y)
	case token.AND:
		return ts.Bin(OBvAnd, x, y)
	case token.OR:
		return ts.Bin(OBvOr, x, y)
	case token.XOR:
		return ts.Bin(OBvXor, x, y)
	case token.AND_NOT:
		return ts.Bin(OBvAnd, x, ts.BvNot(y))
	case token.SHL, token.SHR:
		return p.shift(op, x, y, signed, isSigned(yt))
	case token.EQL:
		return ts.Eq(x, y)
	case token.NEQ:
		return ts.Ne(x, y)
	case token.LSS:
		if signed {
			return ts.Slt(x, y)
		}
		return ts.Ult(x, y)
	case token.LEQ:
		if signed {
			return ts.Sle(x, y)
		}
		return ts.Ule(x, y)
	case token.GTR:
		if signed {
			return ts.Slt(y, x)
		}
		return ts.Ult(y, x)
	case token.GEQ:
		if signed {
			return ts.Sle(y, x)
		}
		return ts.Ule(y, x)
	}
	p.unsupported("int binop %v", op)
	return nil
}

func (p *Path) shift(op token.Token, x, y *Term, xSigned, ySigned bool) Value {
	ts := p.ts
	if ySigned {
		p.faultIf(ts.Slt(y, ts.Const(y.w, 0)), "negative shift amount")
	}
	// bring the count to x's width, saturating
	var cnt *Term
	var big *Term = ts.False
	if y.w > x.w {
		big = ts.Not(ts.Ult(y, ts.Const(y.w, uint64(x.w))))
		cnt = ts.Extract(y, int(x.w)-1, 0)
	} else {
		cnt = ts.Zext(y, x.w)
	}
	var sop Op
	switch {
	case op == token.SHL:
		sop = OShl
	case xSigned:
		sop = OAshr
	default:
		sop = OLshr
	}
	r := ts.Bin(sop, x, cnt)
	if !big.IsFalse() {
		var sat *Term
		if sop == OAshr {
			sat = ts.Bin(OAshr, x, ts.Const(x.w, uint64(x.w)-1))
		} else {
			sat = ts.Const(x.w, 0)
		}
		r = ts.Ite(big, sat, r)
	}
	return r
}

// ---------------------------------------------------------------------------------------------
// Byte-string helpers (concrete lengths, symbolic content)

func (p *Path) byteAt(arr *Cell, i int) *Term {
	c := arr.kids[i]
	p.noteRead(c)
	return c.val.(*Term)
}

// chunkWord concatenates up to 8 bytes (big-endian) into one term; extracts of a common word recombine.
func (p *Path) chunkWord(arr *Cell, off, n int) *Term {
	t := p.byteAt(arr, off)
	for i := 1; i < n; i++ {
		t = p.ts.Concat(t, p.byteAt(arr, off+i))
	}
	return t
}

func (p *Path) bytesEq(a *Cell, ao, an int, b *Cell, bo, bn int) *Term {
	if an != bn {
		return p.ts.False
	}
	res := p.ts.True
	for i := 0; i < an; i += 8 {
		n := an - i
		if n > 8 {
			n = 8
		}
		res = p.ts.And(res, p.ts.Eq(p.chunkWord(a, ao+i, n), p.chunkWord(b, bo+i, n)))
	}
	return res
}

// bytesLess: lexicographic a < b (or a <= b when orEq). Equal-length stretches are compared as
// big-endian words of up to 8 bytes (lexicographic order of equal-length strings = unsigned order of
// their concatenation).
func (p *Path) bytesLess(a *Cell, ao, an int, b *Cell, bo, bn int, orEq bool) *Term {
	ts := p.ts
	n := an
	if bn < n {
		n = bn
	}
	// tail: all first n bytes equal
	var res *Term
	if an < bn {
		res = ts.True
	} else if an == bn {
		res = ts.Bool(orEq)
	} else {
		res = ts.False
	}
	// chunks from the back
	type chunk struct{ off, n int }
	var chunks []chunk
	for i := 0; i < n; i += 8 {
		c := n - i
		if c > 8 {
			c = 8
		}
		chunks = append(chunks, chunk{i, c})
	}
	for k := len(chunks) - 1; k >= 0; k-- {
		c := chunks[k]
		x, y := p.chunkWord(a, ao+c.off, c.n), p.chunkWord(b, bo+c.off, c.n)
		if res.IsTrue() {
			res = ts.Ule(x, y)
		} else if res.IsFalse() {
			res = ts.Ult(x, y)
		} else {
			res = ts.Or(ts.Ult(x, y), ts.And(ts.Eq(x, y), res))
		}
	}
	return res
}

// bytesCompare returns an int-width term in {-1,0,1}.
func (p *Path) bytesCompare(a *Cell, ao, an int, b *Cell, bo, bn int) *Term {
	lt := p.bytesLess(a, ao, an, b, bo, bn, false)
	eq := p.bytesEq(a, ao, an, b, bo, bn)
	return p.ts.Ite(lt, p.word(^uint64(0)), p.ts.Ite(eq, p.word(0), p.word(1)))
}

// ---------------------------------------------------------------------------------------------
// Conversions

func (p *Path) convert(v Value, from, to types.Type) Value {
	fu, tu := from.Underlying(), to.Underlying()
	// unsafe.Pointer <-> pointer
	if fb, ok := fu.(*types.Basic); ok && fb.Kind() == types.UnsafePointer {
		if tp, ok := tu.(*types.Pointer); ok {
			return p.castPointer(v, tp.Elem())
		}
		if tb, ok := tu.(*types.Basic); ok && tb.Kind() == types.Uintptr {
			p.disciplineEvent("unsafe.Pointer converted to uintptr")
			p.unsupported("unsafe.Pointer -> uintptr")
		}
		if tb, ok := tu.(*types.Basic); ok && tb.Kind() == types.UnsafePointer {
			return v
		}
	}
	if tb, ok := tu.(*types.Basic); ok && tb.Kind() == types.UnsafePointer {
		if _, ok := fu.(*types.Pointer); ok {
			return v
		}
		if fb, ok := fu.(*types.Basic); ok && fb.Kind() == types.Uintptr {
			p.disciplineEvent("uintptr converted to unsafe.Pointer")
			p.unsupported("uintptr -> unsafe.Pointer")
		}
	}
	if _, ok := fu.(*types.Pointer); ok {
		if _, ok := tu.(*types.Pointer); ok {
			return v
		}
	}
	switch x := v.(type) {
	case *Term:
		tb, ok := tu.(*types.Basic)
		if !ok {
			break
		}
		if tb.Info()&types.IsString != 0 {
			// string(rune) / string(byte)
			t := p.simp(x)
			if t.op != OConst {
				p.unsupported("string(symbolic integer)")
			}
			return p.strConst(string(rune(sext64(t.k, t.w))))
		}
		ff, tf := isFloat(from), isFloat(to)
		switch {
		case !ff && !tf:
			tw := p.widthOf(to)
			if tw <= x.w {
				return p.ts.Extract(x, int(tw)-1, 0)
			}
			if isSigned(from) {
				return p.ts.Sext(x, tw)
			}
			return p.ts.Zext(x, tw)
		case ff && tf:
			fw, tw := p.widthOf(from), p.widthOf(to)
			if fw == tw {
				return x
			}
			if fw == 32 && tw == 64 {
				return p.ts.F32to64(x)
			}
			t := p.simp(x)
			if t.op == OConst {
				return p.ts.Const(32, uint64(math.Float32bits(float32(math.Float64frombits(t.k)))))
			}
			if t.op == OF32to64 {
				return t.a
			}
			p.unsupported("symbolic float64 -> float32")
		case !ff && tf:
			t := p.simp(x)
			if t.op != OConst {
				p.unsupported("symbolic int -> float")
			}
			var f float64
			if isSigned(from) {
				f = float64(sext64(t.k, t.w))
			} else {
				f = float64(t.k)
			}
			if p.widthOf(to) == 32 {
				return p.ts.Const(32, uint64(math.Float32bits(float32(f))))
			}
			return p.ts.Const(64, math.Float64bits(f))
		case ff && !tf:
			t := p.simp(x)
			if t.op != OConst {
				p.unsupported("symbolic float -> int")
			}
			f := fbits(t.w, t.k)
			if isSigned(to) {
				return p.ts.Const(p.widthOf(to), uint64(int64(f)))
			}
			return p.ts.Const(p.widthOf(to), uint64(f))
		}
	case StrV:
		if ts, ok := tu.(*types.Slice); ok {
			eb, _ := ts.Elem().Underlying().(*types.Basic)
			if eb != nil && eb.Kind() == types.Uint8 {
				if x.len == 0 {
					// []byte("") is a non-nil empty slice
					arr := p.newArray(types.Typ[types.Uint8], 0, "string->bytes")
					return SliceV{arr: arr}
				}
				arr := p.newArray(types.Typ[types.Uint8], x.len, "string->bytes")
				for i := 0; i < x.len; i++ {
					arr.kids[i].val = p.byteAt(x.arr, x.off+i)
				}
				return SliceV{arr: arr, off: 0, len: x.len, cap: x.len}
			}
			if eb != nil && eb.Kind() == types.Int32 {
				s, ok := p.concreteString(x)
				if !ok {
					p.unsupported("[]rune(symbolic string)")
				}
				rs := []rune(s)
				arr := p.newArray(types.Typ[types.Int32], len(rs), "string->runes")
				for i, r := range rs {
					arr.kids[i].val = p.ts.Const(32, uint64(uint32(r)))
				}
				return SliceV{arr: arr, off: 0, len: len(rs), cap: len(rs)}
			}
		}
		if isString(to) {
			return x
		}
	case SliceV:
		if isString(to) {
			eb, _ := fu.(*types.Slice).Elem().Underlying().(*types.Basic)
			if eb != nil && eb.Kind() == types.Uint8 {
				if x.len == 0 {
					return StrV{}
				}
				arr := p.newArray(types.Typ[types.Uint8], x.len, "bytes->string")
				for i := 0; i < x.len; i++ {
					arr.kids[i].val = p.byteAt(x.arr, x.off+i)
				}
				return StrV{arr: arr, off: 0, len: x.len}
			}
			if eb != nil && eb.Kind() == types.Int32 {
				var buf []byte
				for i := 0; i < x.len; i++ {
					t := p.simp(p.byteAt(x.arr, x.off+i))
					if t.op != OConst {
						p.unsupported("string(symbolic []rune)")
					}
					buf = utf8.AppendRune(buf, rune(int32(t.k)))
				}
				// always a fresh allocation
				if len(buf) == 0 {
					return StrV{}
				}
				arr := p.newArray(types.Typ[types.Uint8], len(buf), "runes->string")
				for i, b := range buf {
					arr.kids[i].val = p.ts.Const(8, uint64(b))
				}
				return StrV{arr: arr, len: len(buf)}
			}
		}
		if _, ok := tu.(*types.Slice); ok {
			return x
		}
	case FuncV, IfaceV, AggV:
		return v
	}
	p.unsupported("convert %v -> %v (%T)", from, to, v)
	return nil
}

// castPointer: unsafe.Pointer -> *T with the layout rules of DESIGN §2.2.
func (p *Path) castPointer(v Value, elem types.Type) Value {
	var c *Cell
	switch x := v.(type) {
	case Ptr:
		c = x.c
	case IdxPtr:
		c = p.concretizeIdx(x)
	default:
		p.unsupported("castPointer of %T", v)
	}
	if c == nil {
		return Ptr{}
	}
	if types.Identical(c.typ, elem) {
		return Ptr{c}
	}
	// descend through first fields / first elements
	for d := c; len(d.kids) > 0; {
		d = d.kids[0]
		if types.Identical(d.typ, elem) {
			return Ptr{d}
		}
	}
	// ascend: enclosing aggregates whose first member this is
	for u := c; u.parent != nil && u.idx == 0; {
		u = u.parent
		if types.Identical(u.typ, elem) {
			return Ptr{u}
		}
	}
	// same-size scalar reinterpretation
	if !isAggregate(c.typ) && !isAggregate(elem) {
		if p.eng.sizeof(c.typ) == p.eng.sizeof(elem) && p.eng.isPlainScalar(c.typ) && p.eng.isPlainScalar(elem) {
			return Ptr{c}
		}
	}
	// a narrower scalar at the same address: on the little-endian targets handled here (amd64, 386) it is the
	// low-order bytes of the wider one (allowed by the unsafe rules: the new type is no larger than the old)
	if !isAggregate(c.typ) && !isAggregate(elem) && p.eng.isPlainScalar(c.typ) && p.eng.isPlainScalar(elem) &&
		p.eng.sizeof(elem) < p.eng.sizeof(c.typ) && !isFloat(elem) && !isFloat(c.typ) && c.view == nil {
		if _, ok := c.val.(*Term); ok {
			return Ptr{&Cell{typ: elem, parent: c.parent, idx: c.idx, obj: c.obj, view: c}}
		}
	}
	// identical flattened layout (struct puns)
	if p.eng.layoutCompatible(c.typ, elem) {
		p.noteCast(c, elem, true)
		return Ptr{c}
	}
	p.noteCast(c, elem, false)
	p.disciplineEvent(fmt.Sprintf("layout confusion: object of type %v read as %v", c.typ, elem))
	p.faultNow(fmt.Sprintf("layout confusion: %v read as %v", c.typ, elem))
	return nil
}

// ---------------------------------------------------------------------------------------------
// Calls

func (p *Path) doCall(fr *Frame, cc *ssa.CallCommon) Value {
	args := make([]Value, 0, len(cc.Args)+1)
	if cc.IsInvoke() {
		recv := p.get(fr, cc.Value)
		iv, ok := recv.(IfaceV)
		if !ok {
			p.unsupported("invoke on %T", recv)
		}
		if iv.typ == nil {
			p.faultNow("nil pointer dereference (method call on nil interface)")
		}
		fn := p.eng.lookupMethod(iv.typ, cc.Method)
		if fn == nil {
			p.unsupported("method %s not found on %v", cc.Method.Name(), iv.typ)
		}
		args = append(args, iv.v)
		for _, a := range cc.Args {
			args = append(args, p.get(fr, a))
		}
		return p.callFunction(fn, args, nil)
	}
	for _, a := range cc.Args {
		args = append(args, p.get(fr, a))
	}
	fv, ok := p.get(fr, cc.Value).(FuncV)
	if !ok {
		p.unsupported("call of %T", p.get(fr, cc.Value))
	}
	if fv.builtin != "" {
		return p.callBuiltin(fv.builtin, args, cc)
	}
	if fv.fn == nil {
		p.faultNow("nil pointer dereference (call of nil func)")
	}
	return p.callValue(fv, args)
}

func (p *Path) callValue(fv FuncV, args []Value) Value {
	if len(p.eng.redirect) > 0 && fv.fn.Pkg == p.eng.pkg && !p.scn.NoSummaries {
		if spec, ok := p.eng.redirect[fv.fn.Name()]; ok {
			return p.callFunction(spec, args, nil)
		}
	}
	if r, ok := p.intrinsic(fv.fn, args); ok {
		return r
	}
	return p.callFunction(fv.fn, args, fv.env)
}

var methodCache sync.Map

type methodKey struct {
	t    types.Type
	name string
}

func (e *Engine) lookupMethod(t types.Type, m *types.Func) *ssa.Function {
	e.mu.Lock()
	defer e.mu.Unlock()
	for _, ent := range e.methods {
		if ent.name == m.Name() && types.Identical(ent.t, t) {
			return ent.fn
		}
	}
	ms := e.prog.MethodSets.MethodSet(t)
	sel := ms.Lookup(m.Pkg(), m.Name())
	if sel == nil {
		return nil
	}
	fn := e.prog.MethodValue(sel)
	e.methods = append(e.methods, methodEnt{t, m.Name(), fn})
	return fn
}

// ---------------------------------------------------------------------------------------------
// If-conversion of pure triangles/diamonds: `if c { x = f(x) }` becomes x = ite(c, f(x), x) instead of a fork.

func (p *Path) pureInstr(fr *Frame, ins ssa.Instruction) bool {
	switch x := ins.(type) {
	case *ssa.BinOp:
		switch x.Op {
		case token.QUO, token.REM:
			return false
		case token.SHL, token.SHR:
			// the shift count must already be a concrete value (no negative-count fault can hide in the arm)
			if _, isConst := x.Y.(*ssa.Const); isConst {
				return true
			}
			if yi, ok := x.Y.(ssa.Instruction); ok && yi.Block() == ins.Block() {
				return false
			}
			i, ok := fr.info.index[x.Y]
			if !ok || fr.locals[i] == nil {
				return false
			}
			t, ok := fr.locals[i].(*Term)
			return ok && p.simp(t).op == OConst
		}
		_, basic := x.X.Type().Underlying().(*types.Basic)
		return basic
	case *ssa.UnOp:
		return x.Op != token.MUL && x.Op != token.ARROW
	case *ssa.Convert:
		_, b1 := x.X.Type().Underlying().(*types.Basic)
		_, b2 := x.Type().Underlying().(*types.Basic)
		return b1 && b2 && !isString(x.X.Type()) && !isString(x.Type())
	case *ssa.ChangeType, *ssa.DebugRef:
		return true
	}
	return false
}

// pureArm: block b has blk as its only predecessor, consists of pure instructions and jumps to a join block.
func (p *Path) pureArm(fr *Frame, b, blk *ssa.BasicBlock) *ssa.BasicBlock {
	if len(b.Preds) != 1 || b.Preds[0] != blk || len(b.Instrs) == 0 || len(b.Instrs) > 12 {
		return nil
	}
	for _, ins := range b.Instrs[:len(b.Instrs)-1] {
		if !p.pureInstr(fr, ins) {
			return nil
		}
	}
	if _, ok := b.Instrs[len(b.Instrs)-1].(*ssa.Jump); !ok {
		return nil
	}
	return b.Succs[0]
}

func (p *Path) runArm(fr *Frame, b *ssa.BasicBlock) {
	for _, ins := range b.Instrs[:len(b.Instrs)-1] {
		p.steps++
		p.curInstr = ins
		if v, ok := ins.(ssa.Value); ok {
			fr.locals[fr.info.index[v]] = p.evalInstr(fr, v)
		}
	}
}

func (p *Path) ifConvert(fr *Frame, blk *ssa.BasicBlock, c *Term) *ssa.BasicBlock {
	t, f := blk.Succs[0], blk.Succs[1]
	jt, jf := p.pureArm(fr, t, blk), p.pureArm(fr, f, blk)
	var join *ssa.BasicBlock
	var predT, predF *ssa.BasicBlock // predecessors of join for the true / false side
	switch {
	case jt != nil && jt == f: // triangle: then-arm falls into the else block
		join, predT, predF = f, t, blk
	case jf != nil && jf == t:
		join, predT, predF = t, blk, f
	case jt != nil && jt == jf:
		join, predT, predF = jt, t, f
	default:
		return nil
	}
	// every phi of the join must merge scalars
	var phis []*ssa.Phi
	for _, ins := range join.Instrs {
		ph, ok := ins.(*ssa.Phi)
		if !ok {
			break
		}
		if _, basic := ph.Type().Underlying().(*types.Basic); !basic || isString(ph.Type()) {
			return nil
		}
		phis = append(phis, ph)
	}
	if predT != blk {
		p.runArm(fr, predT)
	}
	if predF != blk {
		p.runArm(fr, predF)
	}
	vals := make([]Value, len(phis))
	for k, ph := range phis {
		var vt, vf Value
		for i, pred := range join.Preds {
			if pred == predT {
				vt = p.get(fr, ph.Edges[i])
			}
			if pred == predF {
				vf = p.get(fr, ph.Edges[i])
			}
		}
		tt, ok1 := vt.(*Term)
		tf, ok2 := vf.(*Term)
		if !ok1 || !ok2 {
			p.unsupported("if-conversion over non-scalar phi")
		}
		vals[k] = p.ts.Ite(c, tt, tf)
	}
	for k, ph := range phis {
		fr.locals[fr.info.index[ph]] = vals[k]
	}
	return join
}
