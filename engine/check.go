package main

// Check runner: scenarios -> exploration -> native confirmation -> known findings -> evidence, exit code.

import (
	"encoding/json"
	"fmt"
	"os"
	"path/filepath"
	"sort"
	"strconv"
	"strings"
	"time"
)

type CheckSpec struct {
	ID            string
	Level         string // evidence level category
	Scenarios     func(c *CheckRun) []*Scenario
	Bounds        []string
	Outside       []string
	Assumptions   []string
	Summaries     bool // substitute proven-equivalent scalar specs for the SWAR/SIMD primitives
	GoArch        string
	Post          func(c *CheckRun)             // optional extra obligations after the exploration
	Alt386        func(c *CheckRun) []*Scenario // scenarios for a second load with GOARCH=386 (32-bit codec arms, portable node16)
	Alt386Quick   bool
	ReplayGcflags string   // extra -gcflags for the native replay binary (C18: checkptr)
	RaceTags      []string // assertion tags whose counterexamples are confirmed by running the two sides in goroutines under -race
	Rule          string
}

type CheckRun struct {
	Spec      *CheckSpec
	Tier      string
	Seed      int64
	Eng       *Engine
	Rep       *Replayer
	Scns      []*Scenario
	Start     time.Time
	Lines     []string // VIOLATION / KNOWN-FINDING lines
	Inconc    []string
	Extra     map[string]interface{}
	Workers   int
	Validated int
	Mismatch  int
	nViol     int
}

type KnownFinding struct {
	Status   string `json:"status"` // open | fixed
	Property string `json:"property"`
	Class    string `json:"class,omitempty"`
	Commit   string `json:"commit,omitempty"`
	What     string `json:"what"`
	Repro    string `json:"repro,omitempty"`
	Line     string `json:"line,omitempty"`
	Assert   string `json:"assert,omitempty"` // when set, only a violation whose assertion text contains it belongs to the finding
}

type KnownFile struct {
	Findings []KnownFinding `json:"findings"`
}

func loadKnown() KnownFile {
	var kf KnownFile
	b, err := os.ReadFile(filepath.Join(verifDir, "known_findings.json"))
	if err == nil {
		json.Unmarshal(b, &kf)
	}
	return kf
}

func (kf KnownFile) open(prop, class string) *KnownFinding {
	for i := range kf.Findings {
		f := &kf.Findings[i]
		if f.Status == "open" && f.Property == prop && f.Class == class {
			return f
		}
	}
	return nil
}

func envInt(name string, def int) int {
	if v := os.Getenv(name); v != "" {
		if n, err := strconv.Atoi(v); err == nil {
			return n
		}
	}
	return def
}

type vioGroup struct {
	key   string
	first Violation
	all   []Violation
}

// runLeg: one engine load (one GOARCH) + its scenarios: exploration, native replay, classification.
// Returns a non-empty message when the leg cannot be completed at all.
func (c *CheckRun) runLeg(arch string, gen func(*CheckRun) []*Scenario, prefix string) string {
	spec := c.Spec
	tier := c.Tier
	eng, err := LoadEngine(arch)
	if err != nil {
		return fmt.Sprintf("cannot load /repo: %v", err)
	}
	c.Eng = eng
	var sumScns []*Scenario
	if spec.Summaries {
		sumScns = eng.EstablishSummaries(c.Workers)
		if len(eng.lemmaFailed) > 0 {
			return fmt.Sprintf("executor lemma not established: %v", eng.lemmaFailed)
		}
	}
	scns := gen(c)
	for _, s := range scns {
		s.Label = prefix + s.Label
	}
	if only := os.Getenv("VERIF_ONLY"); only != "" {
		var keep []*Scenario
		for _, s := range scns {
			if strings.Contains(s.Label, only) {
				keep = append(keep, s)
			}
		}
		scns = keep
	}
	if arch == "" && os.Getenv("VERIF_ONLY") == "" {
		scns = append(scns, selfTestScenarios()...)
	}
	for i, s := range scns {
		s.ID = i
	}
	ex := NewExplorer(eng, c.Workers)
	ex.seed = c.Seed
	ex.sampleMax = 1
	budget := envInt("VERIF_BUDGET_S", 0)
	if budget == 0 {
		if tier == "quick" {
			budget = 2400 // the slowest quick tier (C03) takes ~200 s alone on 16 cores, ~460 s next to another full-load run
		} else {
			budget = 6 * 3600
		}
	}
	ex.deadline = time.Now().Add(time.Duration(budget) * time.Second)
	ex.wantCov = true
	tEx := time.Now()
	if err := ex.Run(scns); err != nil {
		return fmt.Sprintf("exploration: %v", err)
	}
	c.Extra["explore_s"] = time.Since(tEx).Seconds()
	if os.Getenv("VERIF_SLOW") != "" {
		ss := append([]*Scenario(nil), scns...)
		sort.Slice(ss, func(i, j int) bool { return ss[i].WallNs > ss[j].WallNs })
		for i := 0; i < len(ss) && i < 12; i++ {
			fmt.Printf("slow: %.2fs (solver %.2fs) paths=%d %s %v\n", float64(ss[i].WallNs)/1e9, float64(ss[i].SolverNs)/1e9, ss[i].Paths, ss[i].Label, ss[i].Params)
		}
	}
	c.Extra["summaries"] = eng.sumNotes
	_ = sumScns
	if ex.timedOut {
		var unfinished []string
		for _, s := range scns {
			if s.Paths == 0 || s.WallNs > 20e9 {
				if len(unfinished) < 8 {
					unfinished = append(unfinished, fmt.Sprintf("%s %v (paths so far %d, %.0fs)", s.Label, s.Params, s.Paths, float64(s.WallNs)/1e9))
				}
			}
		}
		return fmt.Sprintf("exploration exceeded its budget of %d s: reduce the bound; heavy or unstarted scenarios: %v", budget, unfinished)
	}
	// inconclusive paths, vacuity
	for _, s := range scns {
		if s.Inconclusive > 0 {
			c.Inconc = append(c.Inconc, fmt.Sprintf("scenario %s %v: %d inconclusive paths: %s", s.Label, s.Params, s.Inconclusive, strings.Join(s.IncMsgs, " | ")))
		}
		if s.Finished == 0 && s.Known == "" && len(s.Violations) == 0 && !s.MayBeVacuous {
			c.Inconc = append(c.Inconc, fmt.Sprintf("scenario %s %v is vacuous: no path reaches its end (killed=%d stopped=%d)", s.Label, s.Params, s.Killed, s.Stopped))
		}
	}
	if spec.Post != nil {
		spec.Post(c)
	}
	// group violations
	groups := map[string]*vioGroup{}
	var order []string
	for _, s := range scns {
		for _, v := range s.Violations {
			k := s.Known + "|" + v.Kind + "|" + v.Tag + "|" + v.Where
			g, ok := groups[k]
			if !ok {
				g = &vioGroup{key: k, first: v}
				groups[k] = g
				order = append(order, k)
			}
			g.all = append(g.all, v)
		}
	}
	sort.Strings(order)
	// native replay: violations (up to 3 per group) and path samples
	c.Rep = NewReplayer(spec.ID + arch)
	c.Rep.goarch = arch
	c.Rep.gcflags = spec.ReplayGcflags
	var reqs []ReplayReq
	type vref struct {
		g *vioGroup
		v Violation
	}
	vrefs := map[int]vref{}
	id := 0
	for _, k := range order {
		g := groups[k]
		for i, v := range g.all {
			if i >= 3 {
				break
			}
			reqs = append(reqs, ReplayReq{ID: id, Harness: v.Scn.Harness, Params: v.Scn.Params, Tape: v.Tape})
			vrefs[id] = vref{g, v}
			id++
		}
	}
	type sref struct{ s PathSample }
	srefs := map[int]PathSample{}
	maxSamples := 40
	if tier == "thorough" {
		maxSamples = 400
	}
	nS := 0
	ordered := append([]*Scenario(nil), scns...)
	sort.SliceStable(ordered, func(i, j int) bool { return ordered[i].SelfTest && !ordered[j].SelfTest })
	for _, s := range ordered {
		for _, sm := range s.Samples {
			if nS >= maxSamples {
				break
			}
			reqs = append(reqs, ReplayReq{ID: 1_000_000 + nS, Harness: s.Harness, Params: s.Params, Tape: sm.Tape})
			srefs[1_000_000+nS] = sm
			nS++
		}
	}
	var results map[int]ReplayRes
	if len(reqs) > 0 {
		tR := time.Now()
		results, err = c.Rep.Run(reqs)
		if err != nil {
			return fmt.Sprintf("native replay: %v", err)
		}
		c.Extra["replay_s"] = time.Since(tR).Seconds()
	}
	for rid, sm := range srefs {
		r := results[rid]
		if r.Outcome == "ok" && fmt.Sprint(r.Traces) == fmt.Sprint(sm.Traces) {
			c.Validated++
		} else {
			c.Mismatch++
			c.Inconc = append(c.Inconc, fmt.Sprintf("translator validation: native run of a passing path disagrees (scenario %s %v tape %v): native %s/%s %s traces %v, predicted %v",
				sm.Scn.Label, sm.Scn.Params, sm.Tape, r.Outcome, r.Tag, r.Msg, r.Traces, sm.Traces))
		}
	}
	// confirm violations
	kf := loadKnown()
	confirmed := map[string]*ReplayRes{}
	confirmedV := map[string]Violation{}
	unconfirmed := map[string]string{}
	for rid, vr := range vrefs {
		r := results[rid]
		ok := false
		switch vr.v.Kind {
		case "fault":
			ok = r.Outcome == "panic" || r.Outcome == "crash" || r.Outcome == "hang"
			if (strings.HasPrefix(vr.v.Tag, "layout confusion") || strings.HasPrefix(vr.v.Tag, "pool double Put")) && r.Outcome != "ok" && r.Outcome != "" && r.Outcome != "noresult" {
				// reading an object through an incompatible type does not fault natively; any misbehaviour of the
				// native run with the same inputs (a value that no longer matches, a crash) confirms it
				ok = true
			}
		default:
			ok = (r.Outcome == vr.v.Kind && r.Tag == vr.v.Tag)
			for _, ft := range r.Failed {
				if vr.v.Kind == "assert" && ft == vr.v.Tag {
					ok = true
				}
			}
		}
		if ok {
			if _, have := confirmed[vr.g.key]; !have {
				rr := r
				confirmed[vr.g.key] = &rr
				confirmedV[vr.g.key] = vr.v
			}
		} else if _, have := unconfirmed[vr.g.key]; !have {
			unconfirmed[vr.g.key] = fmt.Sprintf("native outcome %s/%s %s", r.Outcome, r.Tag, r.Msg)
		}
	}
	if len(spec.RaceTags) > 0 {
		var raceRep *Replayer
		rid := 0
		for _, k := range order {
			g := groups[k]
			if _, ok := confirmed[k]; ok {
				continue
			}
			isRace := false
			for _, rt := range spec.RaceTags {
				if g.first.Tag == rt {
					isRace = true
				}
			}
			if !isRace {
				continue
			}
			if raceRep == nil {
				raceRep = NewReplayer(spec.ID + arch + "-race")
				raceRep.race = true
				raceRep.goarch = arch
			}
			for i, v := range g.all {
				if i >= 2 {
					break
				}
				rr, err := raceRep.Run([]ReplayReq{{ID: rid, Harness: v.Scn.Harness, Params: v.Scn.Params, Tape: v.Tape}}, "VERIF_RACE=1")
				if err != nil {
					return fmt.Sprintf("race replay: %v", err)
				}
				r := rr[rid]
				rid++
				if r.Race {
					r.Msg = "race detector: DATA RACE reported when the two sides run in goroutines"
					r.Outcome = "race"
					confirmed[k] = &r
					confirmedV[k] = v
					delete(unconfirmed, k)
					break
				}
			}
		}
	}
	os.MkdirAll(filepath.Join(outDir, "replays", spec.ID), 0o755)
	nViol := c.nViol
	knownSeen := map[string]bool{}
	for _, k := range order {
		g := groups[k]
		if r, ok := confirmed[k]; ok {
			v := confirmedV[k]
			class := v.Scn.Known
			if class != "" {
				if f := kf.open(spec.ID, class); f != nil && (f.Assert == "" || strings.Contains(v.Tag, f.Assert)) {
					if !knownSeen[class] {
						knownSeen[class] = true
						c.Lines = append(c.Lines, fmt.Sprintf("KNOWN-FINDING: property=%s class=%s %s (confirmed on this run: %s %q at %s, tape %s)", spec.ID, class, f.What, v.Kind, v.Tag, v.Where, tapeString(v.Tape)))
					}
					continue
				}
			}
			nViol++
			path := filepath.Join(outDir, "replays", spec.ID, fmt.Sprintf("v%03d.json", nViol))
			rf := map[string]interface{}{
				"property": spec.ID, "harness": v.Scn.Harness, "params": v.Scn.Params, "tape": v.Tape,
				"expect": map[string]string{"kind": v.Kind, "tag": v.Tag}, "where": v.Where,
				"native": r, "scenario": v.Scn.Label, "occurrences": len(g.all),
			}
			b, _ := json.MarshalIndent(rf, "", " ")
			os.WriteFile(path, b, 0o644)
			c.Lines = append(c.Lines, fmt.Sprintf("VIOLATION property=%s replay=%s", spec.ID, path))
			fmt.Printf("  detail: %s %q at %s scenario=%s params=%v tape=%s native=%s %s\n", v.Kind, v.Tag, v.Where, v.Scn.Label, v.Scn.Params, tapeString(v.Tape), r.Outcome, firstLine(r.Msg))
		} else {
			c.Inconc = append(c.Inconc, fmt.Sprintf("unconfirmed-counterexample %s: %s (tape %s params %v)", k, unconfirmed[k], tapeString(g.first.Tape), g.first.Scn.Params))
		}
	}
	// known classes that no longer fail are reported, not failed
	for _, s := range scns {
		if s.Known != "" && !knownSeen[s.Known] {
			if f := kf.open(spec.ID, s.Known); f != nil {
				knownSeen[s.Known] = true
				fmt.Printf("note: known finding %s/%s did not reproduce in this run's bounds\n", spec.ID, s.Known)
			}
		}
	}
	c.nViol = nViol
	c.Scns = append(c.Scns, scns...)
	return ""
}

func runCheck(spec *CheckSpec, tier string) int {
	c := &CheckRun{Spec: spec, Tier: tier, Start: time.Now(), Extra: map[string]interface{}{}}
	c.Seed = int64(envInt("VERIF_SEED", 1))
	c.Workers = envInt("VERIF_WORKERS", 16)
	fail := func(format string, a ...interface{}) int {
		msg := fmt.Sprintf(format, a...)
		fmt.Printf("INCONCLUSIVE property=%s reason=%s\n", spec.ID, msg)
		c.Inconc = append(c.Inconc, msg)
		c.writeEvidence(2)
		return 2
	}
	type legT struct {
		arch   string
		gen    func(*CheckRun) []*Scenario
		prefix string
	}
	legs := []legT{{spec.GoArch, spec.Scenarios, ""}}
	if spec.Alt386 != nil && (tier == "thorough" || spec.Alt386Quick) {
		legs = append(legs, legT{"386", spec.Alt386, "[GOARCH=386] "})
	}
	for _, lg := range legs {
		if msg := c.runLeg(lg.arch, lg.gen, lg.prefix); msg != "" {
			return fail("%s", msg)
		}
	}
	nViol := c.nViol
	c.Extra["violations_confirmed"] = nViol
	for _, l := range c.Lines {
		fmt.Println(l)
	}
	code := 0
	if nViol > 0 {
		code = 1
	} else if len(c.Inconc) > 0 {
		code = 2
		for _, m := range c.Inconc {
			fmt.Printf("INCONCLUSIVE property=%s reason=%s\n", spec.ID, m)
		}
	}
	c.Extra["violations_confirmed"] = nViol
	c.writeEvidence(code)
	var paths, fin int
	for _, s := range c.Scns {
		paths += s.Paths
		fin += s.Finished
	}
	fmt.Printf("%s tier=%s: %d scenarios, %d paths (%d finished), %d solver queries (%d sat / %d unsat / %d unknown), %d native validations, %.1fs -> exit %d\n",
		spec.ID, tier, len(c.Scns), paths, fin, gStats.Queries, gStats.Sat, gStats.Unsat, gStats.Unknown, c.Validated, time.Since(c.Start).Seconds(), code)
	return code
}

func firstLine(s string) string {
	if i := strings.Index(s, "\n"); i >= 0 {
		return s[:i]
	}
	return s
}

func tapeString(t []TapeEntry) string {
	var sb strings.Builder
	sb.WriteString("[")
	for i, e := range t {
		if i > 0 {
			sb.WriteString(" ")
		}
		fmt.Fprintf(&sb, "%d:%#x", e.W, e.V)
	}
	sb.WriteString("]")
	return sb.String()
}

func (c *CheckRun) writeEvidence(code int) {
	spec := c.Spec
	var paths, fin, killed, stopped, inc int
	var steps, api, asserts int64
	var samples []interface{}
	for _, s := range c.Scns {
		paths += s.Paths
		fin += s.Finished
		killed += s.Killed
		stopped += s.Stopped
		inc += s.Inconclusive
		steps += s.Steps
		api += s.ApiCalls
		asserts += s.Asserts
		if len(samples) < 5 && len(s.Samples) > 0 {
			sm := s.Samples[0]
			samples = append(samples, map[string]interface{}{
				"scenario": s.Label, "harness": s.Harness, "params": s.Params,
				"path_decisions": sm.Decisions, "model_tape": tapeString(sm.Tape), "observables": sm.Traces,
			})
		}
	}
	if len(samples) == 0 {
		samples = append(samples, map[string]interface{}{"note": "no finished path was sampled"})
	}
	cov := map[string]interface{}{
		"states":                        fin,
		"transitions":                   int(api),
		"traces_validated_against_impl": c.Validated,
		"samples":                       samples,
		"scenarios":                     len(c.Scns),
		"paths_explored":                paths,
		"paths_finished":                fin,
		"paths_assumed_away":            killed,
		"paths_ended_in_violation":      stopped,
		"paths_inconclusive":            inc,
		"ssa_instructions_executed":     steps,
		"assertions_posed":              asserts,
		"solver":                        map[string]interface{}{"primary": "z3 5.1.0 (z3-new -in)", "queries": gStats.Queries, "sat": gStats.Sat, "unsat": gStats.Unsat, "unknown": gStats.Unknown, "errors": gStats.Errors, "solver_wall_s_summed_over_workers": float64(gStats.NanosIn) / 1e9},
		"bounds":                        spec.Bounds,
		"outside_bounds":                spec.Outside,
		"rule":                          spec.Rule,
		"exit_code":                     code,
		"inconclusive_reasons":          c.Inconc,
		"lines":                         c.Lines,
	}
	if c.Eng != nil {
		cov["functions_encoded"] = c.Eng.encodedList()
		cov["engine_load_s"] = c.Eng.loadTime.Seconds()
		cov["goarch"] = c.Eng.goarch
	}
	if spec.Level == "other" {
		cov["explanation"] = spec.Rule
	}
	if spec.Level == "proof" {
		cov["obligations"] = int(asserts)
		disch := int(asserts)
		if code != 0 {
			disch = 0
		}
		cov["discharged"] = disch
		cov["checker_cmd"] = "z3-new -in (z3 5.1.0), one persistent process per worker, SMT-LIB2 over pipes"
		cov["trusted_base"] = []string{"go/ssa + go/types (x/tools v0.29.0)", "artsym executor and term simplifier", "z3 5.1.0", "Plan 9 amd64 mnemonic table of asm.go"}
	}
	for k, v := range c.Extra {
		cov[k] = v
	}
	ev := map[string]interface{}{
		"property_id": spec.ID,
		"tier":        c.Tier,
		"seed":        c.Seed,
		"level":       spec.Level,
		"coverage":    cov,
		"assumptions": spec.Assumptions,
		"wall_s":      time.Since(c.Start).Seconds(),
		"violations":  c.Extra["violations_confirmed"],
	}
	if ev["violations"] == nil {
		ev["violations"] = 0
	}
	b, _ := json.MarshalIndent(ev, "", " ")
	os.MkdirAll(filepath.Join(outDir, "evidence"), 0o755)
	os.WriteFile(filepath.Join(outDir, "evidence", spec.ID+".json"), b, 0o644)
}
