#!/usr/bin/env python3
# Prints the markdown table of confirmed seeded changes (from /verif/seeded/*/meta.json) for DESIGN.md.
import json, glob, os
rows = []
for d in sorted(glob.glob('/verif/seeded/*/')):
    m = json.load(open(d + 'meta.json'))
    conf = m.get('confirmed', {})
    ok = all(conf.values()) if conf else False
    rows.append((m.get('name', os.path.basename(d[:-1])), m.get('property', '?'), m.get('summary', '').replace('|', '/'),
                 m.get('needs', '').replace('|', '/'), ', '.join(m.get('checks_run', [])), ', '.join(m.get('detected_by', [])) or '—', 'yes' if ok else 'NO'))
print('| seeded change | breaks | what was changed | needs | checks run (quick) | caught by | confirmed |')
print('|---|---|---|---|---|---|---|')
for r in rows:
    summ = r[2] if len(r[2]) < 220 else r[2][:217] + '...'
    needs = r[3] if len(r[3]) < 200 else r[3][:197] + '...'
    print('| %s | %s | %s | %s | %s | %s | %s |' % (r[0], r[1], summ, needs, r[4], r[5], r[6]))
