#!/usr/bin/env python3
# Prints the markdown table of confirmed seeded changes (from /verif/seeded/*/meta.json) for DESIGN.md.
import json, glob, os
rows = []
for d in sorted(glob.glob('/verif/seeded/*/')):
    m = json.load(open(d + 'meta.json'))
    conf = m.get('confirmed', {})
    ok = all(conf.values()) if conf else False
    run = m.get('checks_run', [])
    det = sorted(m.get('detected_by', []))
    miss = sorted(set(run) - set(det))
    summ = m.get('summary', '').replace('|', '/').replace('\n', ' ')
    if len(summ) > 150:
        summ = summ[:147] + '...'
    rows.append((m.get('name', os.path.basename(d[:-1])), summ, ', '.join(det) or '—', ', '.join(miss) or '', 'yes' if ok else 'NO'))
lines = ['| seeded change | what was changed | caught by (quick tier) | ran, did not flag | confirmed |', '|---|---|---|---|---|']
for r in rows:
    lines.append('| %s | %s | %s | %s | %s |' % r)
table = '\n'.join(lines)
import sys
if len(sys.argv) > 1 and sys.argv[1] == '--update':
    d = open('/verif/DESIGN.md').read()
    a, b = '<!-- seeded-table-begin -->', '<!-- seeded-table-end -->'
    i, j = d.index(a) + len(a), d.index(b)
    open('/verif/DESIGN.md', 'w').write(d[:i] + '\n' + table + '\n' + d[j:])
else:
    print(table)
