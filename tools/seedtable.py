#!/usr/bin/env python3
# Prints the markdown table of confirmed seeded changes (from /verif/seeded/*/meta.json) for DESIGN.md.
import json, glob, os
rows = []
for d in sorted(glob.glob('/verif/seeded/*/')):
    m = json.load(open(d + 'meta.json'))
    conf = m.get('confirmed', {})
    ok = all(conf.values()) if conf else False
    run = m.get('checks_run', [])
    det = m.get('detected_by', [])
    # results of earlier runs of other checks are kept in 'also_detected_by' / 'also_missed_by'
    det = sorted(set(det) | set(m.get('also_detected_by', [])))
    miss = sorted((set(run) | set(m.get('also_missed_by', []))) - set(det))
    summ = m.get('summary', '').replace('|', '/').replace('\n', ' ')
    if len(summ) > 150:
        summ = summ[:147] + '...'
    rows.append((m.get('name', os.path.basename(d[:-1])), summ, ', '.join(det) or '—', ', '.join(miss) or '', 'yes' if ok else 'NO'))
print('| seeded change | what was changed | caught by (quick tier) | ran, did not flag | confirmed |')
print('|---|---|---|---|---|')
for r in rows:
    print('| %s | %s | %s | %s | %s |' % r)
