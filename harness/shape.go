//go:build verif

package art

// Structural walker: well-formedness oracle (C11) and canonical dump (native side of C15/C17).
// It reads the real node structures directly (package-internal), so no accessor is added to /repo.

import (
	"fmt"
	"strings"
	"unsafe"
)

// leafView gives the walker uniform access to the six leaf types.
type leafView struct {
	tkey func(p unsafe.Pointer) []byte // transformed (search) key
	okey func(p unsafe.Pointer) []byte // original key bytes as stored
	val  func(p unsafe.Pointer) uint64
	size uintptr
	// set by the walker when it meets a node256 whose recorded fan-out cannot equal its 256 children
	full256 bool
}

func lvAlpha() *leafView {
	return &leafView{
		tkey: func(p unsafe.Pointer) []byte { return (*alphaLeafNode[uint64])(p).getTransformKey() },
		okey: func(p unsafe.Pointer) []byte { return (*alphaLeafNode[uint64])(p).getKey() },
		val:  func(p unsafe.Pointer) uint64 { return (*alphaLeafNode[uint64])(p).value },
		size: unsafe.Sizeof(alphaLeafNode[uint64]{}),
	}
}

func lvUnsigned() *leafView {
	return &leafView{
		tkey: func(p unsafe.Pointer) []byte { return (*unsignedLeafNode[uint64])(p).getTransformKey() },
		okey: func(p unsafe.Pointer) []byte { return (*unsignedLeafNode[uint64])(p).getKey() },
		val:  func(p unsafe.Pointer) uint64 { return (*unsignedLeafNode[uint64])(p).value },
		size: unsafe.Sizeof(unsignedLeafNode[uint64]{}),
	}
}

func lvSigned() *leafView {
	return &leafView{
		tkey: func(p unsafe.Pointer) []byte { return (*signedLeafNode[uint64])(p).getTransformKey() },
		okey: func(p unsafe.Pointer) []byte { return (*signedLeafNode[uint64])(p).getKey() },
		val:  func(p unsafe.Pointer) uint64 { return (*signedLeafNode[uint64])(p).value },
		size: unsafe.Sizeof(signedLeafNode[uint64]{}),
	}
}

func lvFloat() *leafView {
	return &leafView{
		tkey: func(p unsafe.Pointer) []byte { return (*floatLeafNode[uint64])(p).getTransformKey() },
		okey: func(p unsafe.Pointer) []byte { return (*floatLeafNode[uint64])(p).getKey() },
		val:  func(p unsafe.Pointer) uint64 { return (*floatLeafNode[uint64])(p).value },
		size: unsafe.Sizeof(floatLeafNode[uint64]{}),
	}
}

func lvCompound() *leafView {
	return &leafView{
		tkey: func(p unsafe.Pointer) []byte { return (*compoundLeafNode[uint64])(p).getTransformKey() },
		okey: func(p unsafe.Pointer) []byte { return (*compoundLeafNode[uint64])(p).getKey() },
		val:  func(p unsafe.Pointer) uint64 { return (*compoundLeafNode[uint64])(p).value },
		size: unsafe.Sizeof(compoundLeafNode[uint64]{}),
	}
}

func lvCollate() *leafView {
	return &leafView{
		tkey: func(p unsafe.Pointer) []byte { return (*collateLeafNode[uint64])(p).getTransformKey() },
		okey: func(p unsafe.Pointer) []byte { return (*collateLeafNode[uint64])(p).getKey() },
		val:  func(p unsafe.Pointer) uint64 { return (*collateLeafNode[uint64])(p).value },
		size: unsafe.Sizeof(collateLeafNode[uint64]{}),
	}
}

// wfChild is one registered child of an inner node.
type wfChild struct {
	b   byte
	ref nodeRef
}

// childrenOf lists the registered children in the node's own enumeration order and returns the
// node-local consistency condition (fan-out counter, class range, slot order / index table).
func childrenOf(ref nodeRef) ([]wfChild, bool) {
	ok := true
	var out []wfChild
	switch ref.tag {
	case nodeKind4:
		n4 := (*node4)(ref.pointer)
		n := int(n4.childrenLen)
		ok = vpAnd(ok, n >= 2 && n <= 4)
		for i := 0; i < n && i < 4; i++ {
			out = append(out, wfChild{specLane(n4.keys, i), n4.children[i]})
			ok = vpAnd(ok, n4.children[i].pointer != nil)
			if i > 0 {
				ok = vpAnd(ok, specLane(n4.keys, i-1) < specLane(n4.keys, i))
			}
		}
	case nodeKind16:
		n16 := (*node16)(ref.pointer)
		n := int(n16.childrenLen)
		ok = vpAnd(ok, n >= 4 && n <= 16)
		for i := 0; i < n && i < 16; i++ {
			out = append(out, wfChild{n16.keys[i], n16.children[i]})
			ok = vpAnd(ok, n16.children[i].pointer != nil)
			if i > 0 {
				ok = vpAnd(ok, n16.keys[i-1] < n16.keys[i])
			}
		}
	case nodeKind48:
		n48 := (*node48)(ref.pointer)
		n := 0
		// by slot (which slots are occupied is concrete on a path; the byte leading to a slot may be symbolic)
		for i := 0; i < 48; i++ {
			if n48.children[i].pointer == nil {
				continue
			}
			var cnt, bt uint64
			for b := 0; b < 256; b++ {
				m := n48.keys[b] == uint8(i+1)
				cnt += vpB2U(m)
				bt += vpIte64(m, uint64(b), 0)
			}
			ok = vpAnd(ok, cnt == 1) // exactly one byte leads to this slot
			out = append(out, wfChild{byte(bt), n48.children[i]})
			n++
		}
		// every index entry is empty or names an occupied slot
		for b := 0; b < 256; b++ {
			k := n48.keys[b]
			good := k == 0
			for i := 0; i < 48; i++ {
				if n48.children[i].pointer != nil {
					good = vpOr(good, k == uint8(i+1))
				}
			}
			ok = vpAnd(ok, good)
		}
		ok = vpAnd(ok, n == int(n48.childrenLen))
		ok = vpAnd(ok, n >= 13 && n <= 48)
	case nodeKind256:
		n256 := (*node256)(ref.pointer)
		cnt := 0
		for b := 0; b < 256; b++ {
			if n256.children[b].pointer != nil {
				cnt++
				out = append(out, wfChild{byte(b), n256.children[b]})
			}
		}
		// the counter is a uint8: a node with all 256 children records 0 (judged separately, known class K2)
		ok = vpAnd(ok, uint8(cnt) == n256.childrenLen)
		ok = vpAnd(ok, cnt >= 38 && cnt <= 256)
	default:
		ok = false
	}
	return out, ok
}

// wfWalk checks the subtree under ref whose keys have consumed depth bytes so far; it returns the
// transformed keys of the leaves below and the well-formedness condition.
func wfWalk(lv *leafView, ref nodeRef, depth int, leaves *[][]byte) bool {
	if ref.pointer == nil {
		return false
	}
	if ref.tag == nodeKindLeaf {
		k := lv.tkey(ref.pointer)
		*leaves = append(*leaves, k)
		return len(k) >= depth
	}
	if ref.tag > nodeKindLeaf {
		return false
	}
	nd := ref.node()
	plen := int(nd.prefixLen)
	kids, ok := childrenOf(ref)
	if len(kids) < 2 {
		ok = false
	}
	if ref.tag == nodeKind256 && len(kids) == 256 {
		lv.full256 = true
	}
	start := len(*leaves)
	for _, c := range kids {
		from := len(*leaves)
		ok = vpAnd(ok, wfWalk(lv, c.ref, depth+plen+1, leaves))
		// every key below this child carries the child's byte at the branch position
		for _, k := range (*leaves)[from:] {
			if len(k) > depth+plen {
				ok = vpAnd(ok, k[depth+plen] == c.b)
			} else {
				ok = false
			}
		}
	}
	below := (*leaves)[start:]
	if len(below) > 0 {
		first := below[0]
		if len(first) < depth+plen {
			return false
		}
		// all keys below share the compressed path ...
		for _, k := range below[1:] {
			if len(k) < depth+plen {
				ok = false
				continue
			}
			ok = vpAnd(ok, vpEqBytes(k[depth:depth+plen], first[depth:depth+plen]))
		}
		// ... and its inline bytes are those shared bytes
		in := plen
		if in > maxPrefixLen {
			in = maxPrefixLen
		}
		ok = vpAnd(ok, vpEqBytes(nd.prefix[:in], first[depth:depth+in]))
	}
	return ok
}

// wfLeaves lists the leaves reachable through the registered children (bounded depth: a cyclic index is C11's own failure).
func wfLeaves(ref nodeRef, out *[]unsafe.Pointer, depth int) {
	if ref.pointer == nil || depth > 64 {
		return
	}
	if ref.tag == nodeKindLeaf {
		*out = append(*out, ref.pointer)
		return
	}
	if ref.tag > nodeKindLeaf {
		return
	}
	kids, _ := childrenOf(ref)
	for _, c := range kids {
		wfLeaves(c.ref, out, depth+1)
	}
}

// wfInner counts the inner nodes reachable through registered children.
func wfInner(ref nodeRef, depth int) uint64 {
	if ref.pointer == nil || ref.tag == nodeKindLeaf || ref.tag > nodeKindLeaf || depth > 64 {
		return 0
	}
	n := uint64(1)
	kids, _ := childrenOf(ref)
	for _, c := range kids {
		n += wfInner(c.ref, depth+1)
	}
	return n
}

// wellFormed: the index under root is the compressed radix tree of its leaves and holds size leaves.
func wellFormed(lv *leafView, root nodeRef, size int) bool {
	if root.pointer == nil {
		return size == 0
	}
	var leaves [][]byte
	ok := wfWalk(lv, root, 0, &leaves)
	return vpAnd(ok, len(leaves) == size)
}

// ---------------------------------------------------------------------------------------------
// canonical dump (native replays of C15 / C17): every field of every node incl. unoccupied slots

func dumpNode(lv *leafView, ref nodeRef, withValues bool, sb *strings.Builder, bytes *uintptr) {
	if ref.pointer == nil {
		sb.WriteString("nil;")
		return
	}
	switch ref.tag {
	case nodeKindLeaf:
		*bytes += lv.size + uintptr(len(lv.tkey(ref.pointer)))
		fmt.Fprintf(sb, "L(%x|%x", lv.tkey(ref.pointer), lv.okey(ref.pointer))
		if withValues {
			fmt.Fprintf(sb, "=%d", lv.val(ref.pointer))
		}
		sb.WriteString(");")
	case nodeKind4:
		n := (*node4)(ref.pointer)
		*bytes += unsafe.Sizeof(*n)
		fmt.Fprintf(sb, "N4(%d,%d,%x,%08x){", n.prefixLen, n.childrenLen, n.prefix, n.keys)
		for i := range n.children {
			dumpNode(lv, n.children[i], withValues, sb, bytes)
		}
		sb.WriteString("}")
	case nodeKind16:
		n := (*node16)(ref.pointer)
		*bytes += unsafe.Sizeof(*n)
		fmt.Fprintf(sb, "N16(%d,%d,%x,%x){", n.prefixLen, n.childrenLen, n.prefix, n.keys)
		for i := range n.children {
			dumpNode(lv, n.children[i], withValues, sb, bytes)
		}
		sb.WriteString("}")
	case nodeKind48:
		n := (*node48)(ref.pointer)
		*bytes += unsafe.Sizeof(*n)
		fmt.Fprintf(sb, "N48(%d,%d,%x,%x){", n.prefixLen, n.childrenLen, n.prefix, n.keys)
		for i := range n.children {
			dumpNode(lv, n.children[i], withValues, sb, bytes)
		}
		sb.WriteString("}")
	case nodeKind256:
		n := (*node256)(ref.pointer)
		*bytes += unsafe.Sizeof(*n)
		fmt.Fprintf(sb, "N256(%d,%d,%x){", n.prefixLen, n.childrenLen, n.prefix)
		for i := range n.children {
			dumpNode(lv, n.children[i], withValues, sb, bytes)
		}
		sb.WriteString("}")
	default:
		fmt.Fprintf(sb, "BADTAG(%d);", ref.tag)
	}
}

func dumpTree(lv *leafView, root nodeRef, size int, withValues bool) (string, uintptr) {
	var sb strings.Builder
	var n uintptr
	fmt.Fprintf(&sb, "size=%d;", size)
	dumpNode(lv, root, withValues, &sb, &n)
	return sb.String(), n
}
