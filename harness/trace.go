//go:build verif

package art

// Translator validation on the repository's own test inputs: an all-concrete run (no solver involved) whose
// observable digests must agree between the executor and the native build (DESIGN §3.3).

import (
	"bufio"
	"os"
)

func init() { vpRegister("hTraceWords", hTraceWords) }

var vpWordLists [3][]string

// vpWord: i-th line of testdata/{words,uuid,hsk}.txt. Intercepted by the executor (which reads the same file).
func vpWord(list, i int) string {
	if vpWordLists[list] == nil {
		f, err := os.Open([]string{"testdata/words.txt", "testdata/uuid.txt", "testdata/hsk.txt"}[list])
		if err != nil {
			panic(err)
		}
		defer f.Close()
		sc := bufio.NewScanner(f)
		for sc.Scan() {
			vpWordLists[list] = append(vpWordLists[list], sc.Text())
		}
	}
	return vpWordLists[list][i]
}

func fnv(h uint64, b []byte) uint64 {
	for _, c := range b {
		h ^= uint64(c)
		h *= 1099511628211
	}
	return h
}

// params: 0 list; 1 first line; 2 number of lines; 3 stride
func hTraceWords() {
	list, start, n, stride := vpParam(0), vpParam(1), vpParam(2), vpParam(3)
	t := NewAlphaSortedTree[string, uint64]()
	var words []string
	for i := 0; i < n; i++ {
		w := vpWord(list, start+i*stride)
		words = append(words, w)
		t.Insert(w, uint64(i))
	}
	vpTrace("size", uint64(t.Size()))
	for i := 0; i < n; i += 3 {
		if t.Delete(words[i]) {
			vpTrace("del", uint64(i))
		}
	}
	vpTrace("size", uint64(t.Size()))
	var h uint64 = 14695981039346656037
	cnt := 0
	for k, v := range t.All() {
		h = fnv(h, []byte(k))
		h = fnv(h, []byte{byte(v), byte(v >> 8)})
		cnt++
	}
	vpTrace("all.n", uint64(cnt))
	vpTrace("all.digest", h)
	h = 14695981039346656037
	for k := range t.Backward() {
		h = fnv(h, []byte(k))
	}
	vpTrace("bwd.digest", h)
	for i := 0; i < n; i += 7 {
		v, ok := t.Search(words[i])
		vpTrace("search", v<<1|vpB2U(ok))
	}
	if k, v, ok := t.Minimum(); ok {
		vpTrace("min", fnv(v, []byte(k)))
	}
	if k, v, ok := t.Maximum(); ok {
		vpTrace("max", fnv(v, []byte(k)))
	}
	h = 14695981039346656037
	for k := range t.Prefix(words[1][:1]) {
		h = fnv(h, []byte(k))
	}
	vpTrace("prefix.digest", h)
	h = 14695981039346656037
	for k := range t.Range(words[1], words[n/2]) {
		h = fnv(h, []byte(k))
	}
	vpTrace("range.digest", h)
	h = 14695981039346656037
	for k := range t.TopK(5) {
		h = fnv(h, []byte(k))
	}
	for k := range t.BottomK(5) {
		h = fnv(h, []byte(k))
	}
	vpTrace("topbottom.digest", h)
	u := NewUnsignedBinaryTree[uint32, uint64]()
	f := NewFloatBinaryTree[float64, uint64]()
	for i := 0; i < n; i++ {
		x := uint32(fnv(7, []byte(words[i])))
		u.Insert(x, uint64(i))
		f.Insert(float64(int32(x))/3.0, uint64(i))
	}
	h = 14695981039346656037
	for k, v := range u.All() {
		h = fnv(h, []byte{byte(k), byte(k >> 8), byte(k >> 16), byte(k >> 24), byte(v)})
	}
	vpTrace("u32.digest", h)
	cnt = 0
	var prev float64
	okOrder := true
	for k := range f.All() {
		if cnt > 0 && !(prev < k) {
			okOrder = false
		}
		prev = k
		cnt++
	}
	vpTrace("f64.n", uint64(cnt))
	vpTrace("f64.sorted", vpB2U(okOrder))
}
