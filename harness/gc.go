//go:build verif

package art

// C18: stored keys and values of any type survive. What is decided symbolically is the discipline that makes
// collector timing irrelevant: on every path, for value types with and without pointers, zero-size and larger
// than a cache line, every unsafe.Pointer conversion is layout-compatible with the object it points to
// (offsets, sizes and pointer maps — in particular the signed/float -> unsigned leaf puns of Range), no
// pointer travels through an integer, unsafe.Slice stays inside its allocation (the executor faults on any of
// these), and every stored key/value reads back equal to the reference. Natively the same harness runs with
// checkptr instrumentation and forced collections between operations.

import "runtime"

func init() { vpRegister("hGC", hGC) }

type gcVal[V any] struct {
	complete bool // also judge the completeness of the Range read-back (only the odd-size value type: it forks per stored key)
	mk   func() V
	eq   func(a, b V) bool
	snap func(V) uint64 // content behind the value's pointers, recorded at insert time
}

var gcChurn [][]byte

// gcCollect (native replays only): collect twice, then allocate garbage of the small size classes so that any
// object the collector wrongly freed is overwritten before it is read back.
func gcCollect() {
	if !vpGCNative() {
		return
	}
	runtime.GC()
	runtime.GC()
	gcChurn = gcChurn[:0]
	for i := 0; i < 4000; i++ {
		p := new(int)
		*p = 0x5a5a5a5a
		s := []int{0x5a5a5a5a, 0x5a5a5a5a}
		b := make([]byte, 2+i%3)
		for j := range b {
			b[j] = 0x5a
		}
		if i%64 == 0 {
			gcChurn = append(gcChurn, b)
		}
		runtime.KeepAlive(p)
		runtime.KeepAlive(s)
	}
}

type gcEnt[K, V any] struct {
	k    K
	v    V
	sn   uint64
	live bool
}

func runGC[K any, V any](newTree func() Tree[K, V], newKey func() K, eq func(a, b K) bool, less func(a, b K) bool, vv gcVal[V], withRange bool) {
	t := newTree()
	var ents []gcEnt[K, V]
	put := func(k K, v V) {
		found := false
		for i := range ents {
			m := vpAnd(eq(ents[i].k, k), !found)
			// values of arbitrary type cannot be merged by ite: fork on the match (concrete afterwards)
			if m {
				ents[i].v = v
				ents[i].sn = vv.snap(v)
				ents[i].live = true
			}
			found = vpOr(found, eq(ents[i].k, k))
		}
		if !found {
			ents = append(ents, gcEnt[K, V]{k, v, vv.snap(v), true})
		}
	}
	nIns := vpParam(2)
	for i := 0; i < nIns; i++ {
		k, v := newKey(), vv.mk()
		vpApi()
		t.Insert(k, v)
		put(k, v)
		gcCollect()
	}
	// overwrite one key, delete another
	k, v := newKey(), vv.mk()
	vpApi()
	t.Insert(k, v)
	put(k, v)
	gcCollect()
	dk := newKey()
	vpApi()
	t.Delete(dk)
	for i := range ents {
		if eq(ents[i].k, dk) {
			ents[i].live = false
		}
	}
	gcCollect()
	// read everything back
	n := 0
	for i := range ents {
		if !ents[i].live {
			continue
		}
		n++
		got, ok := t.Search(ents[i].k)
		vpAssert(ok, "C18 a stored key is no longer found")
		if ok {
			vpAssert(vpAnd(vv.eq(got, ents[i].v), vv.snap(got) == ents[i].sn), "C18 a stored value no longer equals what was inserted (Search)")
		}
	}
	cnt := 0
	t.All()(func(k K, v V) bool {
		cnt++
		hit := false
		for i := range ents {
			if ents[i].live && eq(ents[i].k, k) {
				hit = true
				vpAssert(vpAnd(vv.eq(v, ents[i].v), vv.snap(v) == ents[i].sn), "C18 a stored value no longer equals what was inserted (All)")
			}
		}
		vpAssert(hit, "C18 iteration yielded a key that is not stored")
		return true
	})
	vpTrace("n", uint64(cnt))
	vpAssert(cnt == n, "C18 iteration lost or duplicated a pair")
	if withRange {
		// Range reinterprets signed/float leaves as unsigned leaves: the pun must be layout-compatible for this V
		a, b := newKey(), newKey()
		vpAssume(less(a, b))
		rc := 0
		seen := make([]bool, len(ents))
		t.Range(a, b)(func(k K, v V) bool {
			rc++
			for i := range ents {
				if ents[i].live && eq(ents[i].k, k) {
					seen[i] = true
					vpAssert(vv.eq(v, ents[i].v), "C18 a stored value no longer equals what was inserted (Range)")
				}
			}
			return true
		})
		vpTrace("range.n", uint64(rc))
		// a stored key between the bounds (or identical to one; eq is exact key identity, so -0/+0 stay apart) must come back: a leaf read through a layout that does not
		// match this V (e.g. a length field at another offset) makes the scan skip it without any fault
		for i := range ents {
			if !vv.complete {
				break
			}
			if ents[i].live && (less(a, ents[i].k) || eq(a, ents[i].k)) && (less(ents[i].k, b) || eq(ents[i].k, b)) {
				vpAssert(seen[i], "C18 a stored key between the bounds is missing from Range")
			}
		}
	}
	gcCollect()
	vpAssert(vpDisciplineEvents() == 0, "C18 an unsafe.Pointer rule was broken (see notes)")
}

func gcByKind[V any](kind int, vv gcVal[V]) {
	switch kind {
	case 0:
		stem := 0
		if vpNParams() > 3 {
			stem = vpParam(3) // long shared key stem: compressed paths far beyond the inline limit
		}
		runGC(func() Tree[[]byte, V] { return NewAlphaSortedTree[[]byte, V]() }, func() []byte {
			b := make([]byte, 0, stem+1)
			for i := 0; i < stem; i++ {
				b = append(b, byte('A'+i%26))
			}
			return append(b, vpBytes(1)...)
		}, vpEqBytes, vpLessBytes, vv, stem > 0)
	case 1:
		runGC(func() Tree[string, V] { return NewAlphaSortedTree[string, V]() }, func() string { return vpString(1) },
			func(a, b string) bool { return a == b }, func(a, b string) bool { return a < b }, vv, false)
	case 3:
		runGC(func() Tree[uint16, V] { return NewUnsignedBinaryTree[uint16, V]() }, vpU16,
			func(a, b uint16) bool { return a == b }, func(a, b uint16) bool { return a < b }, vv, true)
	case 8:
		runGC(func() Tree[int16, V] { return NewSignedBinaryTree[int16, V]() }, func() int16 { return int16(vpU16()) },
			func(a, b int16) bool { return a == b }, func(a, b int16) bool { return a < b }, vv, true)
	case 12:
		runGC(func() Tree[float32, V] { return NewFloatBinaryTree[float32, V]() },
			func() float32 { f := vpF32(); vpAssume(f == f); return f },
			f32Eq, func(a, b float32) bool { return a < b }, vv, true)
	case 14:
		e := &collEnv{}
		i := 0
		runGC(func() Tree[string, V] { return NewCollationSortedTree[string, V]() },
			func() string { u := e.define(cSpecH(i%3, 2)); i++; e.onInsert(u); return collString(u) },
			func(a, b string) bool { return a == b }, func(a, b string) bool { return a < b }, vv, false)
	default:
		vpFail("unknown kind for hGC")
	}
}

func cSpecH(u, flen int) int { return u | flen<<4 }

type big16 [16]uint64

// odd5: a pointer-free value whose size is not a multiple of any word size, so that the field after it in a
// leaf sits at an offset that depends on that field's own width and alignment
type odd5 [5]byte

// params: 0 tree kind; 1 value type (0 *int, 1 string, 2 []int, 3 struct{}, 4 [16]uint64, 5 [5]byte); 2 number of inserts
func hGC() {
	kind := vpParam(0)
	switch vpParam(1) {
	case 0:
		gcByKind(kind, gcVal[*int]{mk: func() *int { p := new(int); *p = int(vpU8()); return p }, eq: func(a, b *int) bool { return a == b && *a == *b },
			snap: func(p *int) uint64 { return uint64(*p) }})
	case 1:
		gcByKind(kind, gcVal[string]{mk: func() string { return vpString(2) }, eq: func(a, b string) bool { return a == b },
			snap: func(s string) uint64 { return uint64(s[0])<<8 | uint64(s[1]) }})
	case 2:
		gcByKind(kind, gcVal[[]int]{mk: func() []int { return []int{int(vpU8()), 7} },
			eq:   func(a, b []int) bool { return len(a) == len(b) && len(a) == 2 && vpAnd(a[0] == b[0], a[1] == b[1]) },
			snap: func(s []int) uint64 { return uint64(s[0])<<8 | uint64(s[1]) }})
	case 3:
		gcByKind(kind, gcVal[struct{}]{mk: func() struct{} { return struct{}{} }, eq: func(a, b struct{}) bool { return true }, snap: func(struct{}) uint64 { return 0 }})
	case 4:
		gcByKind(kind, gcVal[big16]{mk: func() big16 { var x big16; x[0], x[15] = vpU64(), vpU64(); return x }, eq: func(a, b big16) bool { return a == b },
			snap: func(x big16) uint64 { return x[0] ^ x[15] }})
	case 5:
		gcByKind(kind, gcVal[odd5]{complete: true, mk: func() odd5 { var x odd5; x[0], x[4] = vpU8(), vpU8(); return x }, eq: func(a, b odd5) bool { return a == b },
			snap: func(x odd5) uint64 { return uint64(x[0])<<8 | uint64(x[4]) }})
	default:
		vpFail("unknown value type for hGC")
	}
}
