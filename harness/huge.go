//go:build verif

package art

// Keys whose stored length crosses the width of an integer field (255/256, 65535/65536 bytes): a length kept
// in a narrower field than the key needs truncates silently. The stem is concrete, only the last byte of each
// key is symbolic, so the executor's cost is linear in the key length.
//
// params: 0 stem length n (keys have n+1 bytes, their terminated form n+2); 1 kind (0 []byte tree, 1 string tree)

func init() { vpRegister("hHuge", hHuge) }

func hugeStem(n int) []byte {
	b := make([]byte, n)
	for i := range b {
		b[i] = byte('a' + i%23)
	}
	return b
}

func hHuge() {
	n := vpParam(0)
	if vpParam(1) == 1 {
		hugeRun(n, NewAlphaSortedTree[string, uint64](), func(b []byte) string { return string(b) }, func(k string) []byte { return []byte(k) })
		return
	}
	hugeRun(n, NewAlphaSortedTree[[]byte, uint64](), func(b []byte) []byte { return append([]byte(nil), b...) }, func(k []byte) []byte { return k })
}

func hugeRun[K chars](n int, t Tree[K, uint64], mk func([]byte) K, by func(K) []byte) {
	x, y := vpU8(), vpU8()
	vpAssume(x < y)
	k1 := append(hugeStem(n), x)
	k2 := append(hugeStem(n), y)
	v1, v2, v3 := vpU64(), vpU64(), vpU64()

	vpApi()
	t.Insert(mk(k1), v1)
	vpAssert(t.Size() == 1, "C06 size after the first insert of a long key")
	got, ok := t.Search(mk(k1))
	vpAssert(vpAnd(ok, got == v1), "C01 a long key is found after its insert")

	// an Insert of the present key only replaces the value
	vpApi()
	t.Insert(mk(k1), v2)
	vpTrace("size.after.overwrite", uint64(t.Size()))
	vpAssert(t.Size() == 1, "C15 Insert of a present long key changed the size")
	got, ok = t.Search(mk(k1))
	vpAssert(vpAnd(ok, got == v2), "C01 overwrite of a long key replaces its value")
	_, ok = t.Search(mk(k2))
	vpAssert(!ok, "C01 a long key that differs in its last byte is absent")

	vpApi()
	t.Insert(mk(k2), v3)
	vpAssert(t.Size() == 2, "C06 size after a second long key")
	got, ok = t.Search(mk(k2))
	vpAssert(vpAnd(ok, got == v3), "C01 second long key found")
	got, ok = t.Search(mk(k1))
	vpAssert(vpAnd(ok, got == v2), "C01 first long key still found")

	// iteration returns both keys whole, in order
	vpApi()
	var ks []K
	var vs []uint64
	t.All()(func(k K, v uint64) bool {
		ks = append(ks, k)
		vs = append(vs, v)
		return true
	})
	vpTrace("all.n", uint64(len(ks)))
	vpAssert(len(ks) == 2, "C02 All() yields both long keys")
	if len(ks) == 2 {
		vpAssert(vpAnd(vpEqBytes(by(ks[0]), k1), vs[0] == v2), "C02 first long key returned whole with its value")
		vpAssert(vpAnd(vpEqBytes(by(ks[1]), k2), vs[1] == v3), "C02 second long key returned whole with its value")
	}
	mk1, mv1, ok1 := t.Minimum()
	vpAssert(vpAnd(ok1, vpAnd(vpEqBytes(by(mk1), k1), mv1 == v2)), "C05 minimum of two long keys")

	// a failed Delete (same stem, a third last byte) and the two real ones
	z := vpU8()
	vpAssume(vpAnd(z != x, z != y))
	vpApi()
	vpAssert(!t.Delete(mk(append(hugeStem(n), z))), "C01 Delete of an absent long key reports false")
	vpAssert(t.Size() == 2, "C06 size after a failed delete")
	vpAssert(t.Delete(mk(k1)), "C01 Delete of a present long key reports true")
	_, ok = t.Search(mk(k1))
	vpAssert(!ok, "C01 deleted long key is gone")
	got, ok = t.Search(mk(k2))
	vpAssert(vpAnd(ok, got == v3), "C01 the other long key survives the delete")
	vpAssert(t.Delete(mk(k2)), "C01 Delete of the last long key reports true")
	vpAssert(t.Size() == 0, "C06 size after deleting everything")
}
