//go:build verif

package art

// C13: key arguments are neither written to nor retained by reference (byte-slice keys).
//
// params: 0 kind (0 byte-string []byte tree, 15 collation []byte tree); 1 reuse one buffer for all keys (0/1);
//         2 nCalls; then per call: (op, keyLenOrSpec, spareCapacity); op: 0 Insert 1 Search 2 Delete 3 Prefix 4 Range(k,k)
//         5 Range(k, empty end): the end defaults to the stored maximum, the bounds are swapped when k lies above it

func init() { vpRegister("hAlias", hAlias) }

func hAlias() {
	kind := vpParam(0)
	reuse := vpParam(1) == 1
	nCalls := vpParam(2)
	var h *hk[[]byte]
	var ce *collEnv
	if kind == 15 {
		ce = &collEnv{}
		h = hkColl(ce, func(s string) []byte { return []byte(s) }, func(k []byte) string { return string(k) })
	} else {
		h = hkAlphaBytes()
	}
	t := h.newTree()
	ref := &refMap[[]byte]{h: h}
	var bufs [][]byte
	var shared []byte
	if reuse {
		maxc := 0
		for i := 0; i < nCalls; i++ {
			n := vpParam(3+3*i+1)&15 + (vpParam(3+3*i+1)>>4)&63
			if kind == 15 {
				n = len(collUniverse[vpParam(3+3*i+1)&15])
			}
			if c := n + vpParam(3+3*i+2); c > maxc {
				maxc = c
			}
		}
		shared = vpBytes(maxc)
		bufs = append(bufs, shared)
	}
	var inserted [][]byte
	for i := 0; i < nCalls; i++ {
		op, spec, spare := vpParam(3+3*i), vpParam(3+3*i+1), vpParam(3+3*i+2)
		var content []byte
		if kind == 15 {
			content = []byte(collString(ce.define(spec)))
		} else {
			content = alphaKeyBytes(spec) // a concrete stem of (spec>>4)&63 bytes followed by spec&15 symbolic bytes
		}
		n := len(content)
		var buf []byte
		if reuse {
			buf = shared
			copy(buf, content) // the scanner idiom: the caller refills its buffer
		} else {
			buf = make([]byte, n+spare)
			copy(buf, content)
			for j := n; j < n+spare; j++ {
				buf[j] = vpU8() // live caller data in the spare capacity
			}
			bufs = append(bufs, buf)
		}
		key := buf[:n] // capacity extends over the caller's data
		before := append([]byte(nil), buf...)
		keep := append([]byte(nil), content...)
		vpApi()
		switch op {
		case 0:
			if kind != 15 {
				bad := false
				for _, o := range inserted {
					bad = vpOr(bad, termPrefixRel(o, keep))
				}
				vpAssume(!bad) // known class K0 is judged by C01
				inserted = append(inserted, keep)
			}
			v := vpU64()
			if h.onInsert != nil {
				h.onInsert(keep)
			}
			t.Insert(key, v)
			ref.put(keep, v)
		case 1:
			t.Search(key)
		case 2:
			t.Delete(key)
			ref.del(keep)
		case 5:
			// only the caller's memory is judged here (what Range(k, "") yields when k is above the maximum is carved
			// out of C03); the sequence is consumed after the buffer check so that a lazy write would be seen too
			seq := t.Range(key, nil)
			vpAssert(vpEqBytes(buf, before), "C13 the call changed the caller's key bytes or the spare capacity behind them")
			collect(seq)
		case 3, 4:
			// the sequence is obtained, the caller then reuses its buffer, and only then ranges over the sequence:
			// what it yields must be what the original key asked for
			var seq func(yield func([]byte, uint64) bool)
			if op == 3 {
				seq = t.Prefix(key)
			} else {
				seq = t.Range(key, key)
			}
			vpAssert(vpEqBytes(buf, before), "C13 the call changed the caller's key bytes or the spare capacity behind them")
			if !reuse && (kind != 15 || op == 3) {
				for j := range buf {
					buf[j] = vpU8()
				}
				y := collect(seq)
				var in func(k []byte) bool
				if op == 3 {
					in = func(k []byte) bool { return vpHasPrefix(k, keep) }
					if len(keep) == 0 {
						in = nil
					}
				} else if len(keep) == 0 {
					in = nil // Range(x, "") on a byte-string tree: from x up to the maximum; x is empty: everything
				} else {
					in = func(k []byte) bool { return vpEqBytes(k, keep) }
				}
				vpAssert(sortedContent(ref, y, false, in), "C13 a sequence returned by Prefix/Range changed when the caller reused the argument buffer before ranging over it")
				before = append([]byte(nil), buf...)
			} else {
				collect(seq)
			}
		}
		vpAssert(vpEqBytes(buf, before), "C13 the call changed the caller's key bytes or the spare capacity behind them")
	}
	// the caller scribbles over every buffer it ever passed
	for _, b := range bufs {
		for j := range b {
			b[j] = vpU8()
		}
	}
	// the tree still holds exactly the keys that were inserted, retrievable by content
	for i := range ref.ents {
		e := &ref.ents[i]
		got, ok := t.Search(append([]byte(nil), e.k...))
		_, wok := ref.get(e.k)
		want, _ := ref.get(e.k)
		vpAssert(ok == wok, "C13 a stored key changed when the caller reused its buffer (Search)")
		vpAssert(vpOr(!ok, got == want), "C13 a stored value changed when the caller reused its buffer")
	}
	y := collect(t.All())
	vpTrace("all.n", uint64(len(y.ks)))
	vpAssert(sortedContent(ref, y, false, nil), "C13 iteration no longer returns the inserted keys after the caller reused its buffers")
}
