//go:build verif

package art

// C08: collation trees with an arbitrary collator. The original strings are concrete members of a small
// universe; the collator is an uninterpreted function F over them: F(s) = fresh symbolic bytes of the
// length the template gives, constrained only by determinism (one definition per string) and by
// "the collator tells the stored strings apart". No prefix-freeness is assumed (real collators do not
// give it); the class where F(s) is a proper prefix of F(s') is the known class K1.

import (
	"golang.org/x/text/collate"
)

var collUniverse = []string{"a", "b", "ab", "é", "", "abc", "á", "B"}

// symbolic side: intercepted; native side: feeds the patched collate.Collator.Key through VerifKeyHook
var vpCollTable map[string][]byte

func vpCollDefine(orig string, key []byte) {
	if vpCollTable == nil {
		vpCollTable = map[string][]byte{}
		collate.VerifKeyHook = func(str []byte) ([]byte, bool) {
			k, ok := vpCollTable[string(str)]
			return k, ok
		}
	}
	vpCollTable[orig] = append([]byte(nil), key...)
}

func init() {
	vpResetHooks = append(vpResetHooks, func() { vpCollTable = nil; collate.VerifKeyHook = nil })
	vpRegister("hColl", hColl)
}

// universe entries 8..71 are generated strings "u08".."u71" with concrete two-byte collation keys {0x20, 3*i+1}
// (fan-out bases); entries 0..7 get symbolic keys.
const collUniverseSize = 72

func collString(u int) string {
	if u < len(collUniverse) {
		return collUniverse[u]
	}
	return string([]byte{'u', byte('0' + u/10), byte('0' + u%10)})
}

func collIndex(s string) int {
	for i := 0; i < collUniverseSize; i++ {
		if collString(i) == s {
			return i
		}
	}
	return -1
}

type collEnv struct {
	fkey     [collUniverseSize][]byte // F(universe[i]) once defined
	defined  [collUniverseSize]bool
	inserted [collUniverseSize]bool
	kmode    int
}

// onInsert: the collator tells the STORED strings apart (the property's premise); a string that is only probed
// or deleted while absent may collate equal to a stored one (canonically equivalent spellings do).
// K1 = proper-prefix relation between the collation keys of two stored strings.
func (e *collEnv) onInsert(u int) {
	if e.inserted[u] {
		return
	}
	bad := false
	for j := range e.fkey {
		if e.inserted[j] && j != u {
			vpAssume(!vpEqBytes(e.fkey[j], e.fkey[u]))
			bad = vpOr(bad, properPrefixRel(e.fkey[j], e.fkey[u]))
		}
	}
	if e.kmode == 0 {
		vpAssume(!bad)
	}
	e.inserted[u] = true
}

// key spec: universe index | F length << 4
func (e *collEnv) define(spec int) int {
	u := spec & 15
	fl := (spec >> 4) & 0xff
	if spec&(1<<20) != 0 {
		u = spec & 0xff // generated entry with a concrete key
	}
	if !e.defined[u] {
		e.defined[u] = true
		var f []byte
		if u == 71 {
			f = []byte{0x40, 0x01} // the one generated entry that branches off at the first byte
		} else if u >= len(collUniverse) {
			f = []byte{0x20, byte(3*u + 1)}
		} else if spec&(1<<12) != 0 {
			// first and third byte concrete ("k?x?"-shaped keys): fewer paths, same tree shapes
			f = vpBytes(fl & 0xff)
			f[0] = 0x6b
			if len(f) > 2 {
				f[2] = byte(0x70 + u&1)
			}
		} else {
			f = vpBytes(fl & 0xff)
		}
		e.fkey[u] = f
		vpCollDefine(collString(u), f)
	}
	return u
}

func properPrefixRel(a, b []byte) bool {
	if len(a) == len(b) {
		return false
	}
	if len(a) > len(b) {
		a, b = b, a
	}
	return vpEqBytes(b[:len(a)], a)
}

func hkColl[K chars | []rune](e *collEnv, conv func(string) K, back func(K) string) *hk[K] {
	lv := lvCollate()
	idx := func(k K) int {
		if i := collIndex(back(k)); i >= 0 {
			return i
		}
		vpFail("C08 a key outside the universe was returned: the original string was not preserved")
		return 0
	}
	return &hk[K]{
		scratch:     true,
		retainSlack: 128, // the collation buffer keeps the last key
		onInsert:    func(k K) { e.onInsert(idx(k)) },
		lv:          lv,
		state: func(t Tree[K, uint64]) vpTreeState {
			tt := t.(*collationSortedTree[K, uint64])
			return vpTreeState{tt.root, tt.size, lv}
		},
		newTree: func() Tree[K, uint64] { return NewCollationSortedTree[K, uint64]() },
		tkeyOf:  func(k K) []byte { return e.fkey[idx(k)] },
		newKey:  func(spec int) K { return conv(collString(e.define(spec))) },
		concKey: func(spec int) K { return conv(collString(e.define(spec | 1<<20))) },
		clone:   func(k K) K { return conv(back(k)) },
		eq:      func(a, b K) bool { return back(a) == back(b) },
		less:    func(a, b K) bool { return vpLessBytes(e.fkey[idx(a)], e.fkey[idx(b)]) },
		trace:   func(tag string, k K) { vpTrace(tag, uint64(idx(k))) },
		bytesOf: func(k K) []byte { return []byte(back(k)) },
	}
}

// params as hHist; kind 14 string, 15 []byte, 16 []rune; param 2 (known-class mode): 0 assume not K1, 1 no assumption
func hColl() {
	e := &collEnv{kmode: vpParam(2)}
	switch vpParam(0) {
	case 14:
		runHist(hkColl(e, func(s string) string { return s }, func(k string) string { return k }))
	case 15:
		runHist(hkColl(e, func(s string) []byte { return []byte(s) }, func(k []byte) string { return string(k) }))
	case 16:
		runHist(hkColl(e, func(s string) []rune { return []rune(s) }, func(k []rune) string { return string(k) }))
	default:
		vpFail("unknown collation kind")
	}
}
