//go:build verif

package art

func init() { vpRegister("hSmoke", hSmoke) }

func hSmoke() {
	t := NewAlphaSortedTree[[]byte, uint64]()
	k1 := vpBytes(2)
	k2 := vpBytes(2)
	v1 := vpU64()
	v2 := vpU64()
	t.Insert(append([]byte(nil), k1...), v1)
	t.Insert(append([]byte(nil), k2...), v2)
	p := vpBytes(2)
	got, ok := t.Search(append([]byte(nil), p...))
	e1 := vpEqBytes(p, k1)
	e2 := vpEqBytes(p, k2)
	wantOk := vpOr(e1, e2)
	want := vpIte64(e2, v2, v1)
	vpTrace("ok", vpB2U(ok))
	vpAssert(ok == wantOk, "search presence")
	vpAssert(vpOr(!ok, got == want), "search value")
	vpAssert(t.Size() == int(vpIte64(vpEqBytes(k1, k2), 1, 2)), "size")
}
