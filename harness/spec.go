//go:build verif

package art

import (
	"encoding/binary"
	"math"
)

// Scalar specifications of the in-node search primitives (C10a) and the equivalence harnesses that
// justify substituting them for the SWAR / SIMD routines in tree-level scenarios (DESIGN §2.3).

func specLane(keys uint32, i int) byte { return byte(keys >> (uint(i) * 8)) }

// first lane equal to b, else -1
func specSearchNode4(keys uint32, b byte) int {
	for i := 0; i < 4; i++ {
		if specLane(keys, i) == b {
			return i
		}
	}
	return -1
}

// first lane whose byte is >= b (unsigned), else -1
func specInsertPosNode4(keys uint32, b byte) int {
	for i := 0; i < 4; i++ {
		if specLane(keys, i) >= b {
			return i
		}
	}
	return -1
}

// first i < childrenLen with keys[i] == b, else -1
func specSearchNode16(keys *[16]byte, childrenLen uint8, b byte) int {
	n := int(childrenLen)
	if n > 16 {
		n = 16
	}
	for i := 0; i < n; i++ {
		if keys[i] == b {
			return i
		}
	}
	return -1
}

// first i < childrenLen with keys[i] > b (unsigned), else -1
func specInsertPosNode16(keys *[16]byte, childrenLen uint8, b byte) int {
	n := int(childrenLen)
	if n > 16 {
		n = 16
	}
	for i := 0; i < n; i++ {
		if keys[i] > b {
			return i
		}
	}
	return -1
}

func init() {
	vpRegister("hEqSearch4", hEqSearch4)
	vpRegister("hEqInsertPos4", hEqInsertPos4)
	vpRegister("hEqSearch16", hEqSearch16)
	vpRegister("hEqInsertPos16", hEqInsertPos16)
}

func hEqSearch4() {
	keys, b := vpU32(), vpU8()
	got := searchNode4(keys, b)
	want := specSearchNode4(keys, b)
	vpTrace("got", uint64(got))
	vpAssert(got == want, "C10 searchNode4 equals the scalar scan")
}

func hEqInsertPos4() {
	keys, b := vpU32(), vpU8()
	got := insertPosNode4(keys, b)
	want := specInsertPosNode4(keys, b)
	vpTrace("got", uint64(got))
	vpAssert(got == want, "C10 insertPosNode4 equals the scalar scan")
}

func symKeys16() *[16]byte {
	var keys [16]byte
	for i := range keys {
		keys[i] = vpU8()
	}
	return &keys
}

// param 0: childrenLen (0..16 concrete; 255 = symbolic over the whole uint8 range <= 16)
func hEqSearch16() {
	keys := symKeys16()
	b := vpU8()
	n := uint8(vpParam(0))
	if vpParam(0) == 255 {
		n = vpU8()
		vpAssume(n <= 16)
	}
	got := searchNode16(keys, n, b)
	want := specSearchNode16(keys, n, b)
	vpTrace("got", uint64(got))
	vpAssert(got == want, "C10 searchNode16 equals the scalar scan")
}

func hEqInsertPos16() {
	keys := symKeys16()
	b := vpU8()
	n := uint8(vpParam(0))
	if vpParam(0) == 255 {
		n = vpU8()
		vpAssume(n <= 16)
	}
	got := insertPosNode16(keys, n, b)
	want := specInsertPosNode16(keys, n, b)
	vpTrace("got", uint64(got))
	vpAssert(got == want, "C10 insertPosNode16 equals the scalar scan")
}

// Lemma: the executor's bit-vector encoding of Go's float comparisons (used on every tree-level path)
// agrees with the solver's floating-point theory for every pair of bit patterns.
func init() {
	vpRegister("hFpLemma32", hFpLemma32)
	vpRegister("hFpLemma64", hFpLemma64)
}

func hFpLemma32() {
	a, b := vpU32(), vpU32()
	x, y := math.Float32frombits(a), math.Float32frombits(b)
	vpAssert((x < y) == vpFpLt32(a, b), "float32 < : bit-vector encoding equals the FP theory")
	vpAssert((x == y) == vpFpEq32(a, b), "float32 == : bit-vector encoding equals the FP theory")
	vpAssert((x != x) == vpFpIsNaN32(a), "float32 NaN test: bit-vector encoding equals the FP theory")
	vpAssert((x <= y) == vpOr(vpFpLt32(a, b), vpFpEq32(a, b)), "float32 <= : bit-vector encoding equals the FP theory")
}

func hFpLemma64() {
	a, b := vpU64(), vpU64()
	x, y := math.Float64frombits(a), math.Float64frombits(b)
	vpAssert((x < y) == vpFpLt64(a, b), "float64 < : bit-vector encoding equals the FP theory")
	vpAssert((x == y) == vpFpEq64(a, b), "float64 == : bit-vector encoding equals the FP theory")
	vpAssert((x != x) == vpFpIsNaN64(a), "float64 NaN test: bit-vector encoding equals the FP theory")
	vpAssert((x <= y) == vpOr(vpFpLt64(a, b), vpFpEq64(a, b)), "float64 <= : bit-vector encoding equals the FP theory")
}

// Lemma: the executor's summaries of encoding/binary.BigEndian agree with the shift-and-or definition.
func init() { vpRegister("hBigEndianLemma", hBigEndianLemma) }

func hBigEndianLemma() {
	b := vpBytes(8)
	vpAssert(binary.BigEndian.Uint16(b) == uint16(b[1])|uint16(b[0])<<8, "BigEndian.Uint16 summary")
	vpAssert(binary.BigEndian.Uint32(b) == uint32(b[3])|uint32(b[2])<<8|uint32(b[1])<<16|uint32(b[0])<<24, "BigEndian.Uint32 summary")
	vpAssert(binary.BigEndian.Uint64(b) == uint64(b[7])|uint64(b[6])<<8|uint64(b[5])<<16|uint64(b[4])<<24|
		uint64(b[3])<<32|uint64(b[2])<<40|uint64(b[1])<<48|uint64(b[0])<<56, "BigEndian.Uint64 summary")
	x := vpU64()
	o := make([]byte, 8)
	binary.BigEndian.PutUint64(o, x)
	ok := true
	for i := 0; i < 8; i++ {
		ok = vpAnd(ok, o[i] == byte(x>>(56-8*uint(i))))
	}
	vpAssert(ok, "BigEndian.PutUint64 summary")
	o4 := make([]byte, 4)
	binary.BigEndian.PutUint32(o4, uint32(x))
	vpAssert(vpAnd(vpAnd(o4[0] == byte(x>>24), o4[1] == byte(x>>16)), vpAnd(o4[2] == byte(x>>8), o4[3] == byte(x))), "BigEndian.PutUint32 summary")
	o2 := make([]byte, 2)
	binary.BigEndian.PutUint16(o2, uint16(x))
	vpAssert(vpAnd(o2[0] == byte(x>>8), o2[1] == byte(x)), "BigEndian.PutUint16 summary")
}

// Lemma: the executor's bit-vector widening float32 -> float64 is exact: the widened pattern compares (in the
// FP theory, as float64) exactly as the float32 values compare, and NaN-ness / infinity are preserved.
func init() { vpRegister("hFpWidenLemma", hFpWidenLemma) }

func hFpWidenLemma() {
	a, b := vpU32(), vpU32()
	x, y := math.Float32frombits(a), math.Float32frombits(b)
	wx, wy := math.Float64bits(float64(x)), math.Float64bits(float64(y))
	vpAssert(vpFpLt64(wx, wy) == vpFpLt32(a, b), "float32->float64 widening preserves <")
	vpAssert(vpFpEq64(wx, wy) == vpFpEq32(a, b), "float32->float64 widening preserves ==")
	vpAssert(vpFpIsNaN64(wx) == vpFpIsNaN32(a), "float32->float64 widening preserves NaN-ness")
	vpAssert((wx>>63 == 1) == (a>>31 == 1), "float32->float64 widening preserves the sign bit")
	vpAssert((a == 0x7f800000) == (wx == 0x7ff0000000000000), "float32->float64 widening maps +Inf to +Inf only")
	vpAssert((a == 0xff800000) == (wx == 0xfff0000000000000), "float32->float64 widening maps -Inf to -Inf only")
}
