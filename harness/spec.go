//go:build verif

package art

// Scalar specifications of the in-node search primitives (C10a) and the equivalence harnesses that
// justify substituting them for the SWAR / SIMD routines in tree-level scenarios (DESIGN §2.3).

func specLane(keys uint32, i int) byte { return byte(keys >> (uint(i) * 8)) }

// first lane equal to b, else -1
func specSearchNode4(keys uint32, b byte) int {
	for i := 0; i < 4; i++ {
		if specLane(keys, i) == b {
			return i
		}
	}
	return -1
}

// first lane whose byte is >= b (unsigned), else -1
func specInsertPosNode4(keys uint32, b byte) int {
	for i := 0; i < 4; i++ {
		if specLane(keys, i) >= b {
			return i
		}
	}
	return -1
}

// first i < childrenLen with keys[i] == b, else -1
func specSearchNode16(keys *[16]byte, childrenLen uint8, b byte) int {
	n := int(childrenLen)
	if n > 16 {
		n = 16
	}
	for i := 0; i < n; i++ {
		if keys[i] == b {
			return i
		}
	}
	return -1
}

// first i < childrenLen with keys[i] > b (unsigned), else -1
func specInsertPosNode16(keys *[16]byte, childrenLen uint8, b byte) int {
	n := int(childrenLen)
	if n > 16 {
		n = 16
	}
	for i := 0; i < n; i++ {
		if keys[i] > b {
			return i
		}
	}
	return -1
}

func init() {
	vpRegister("hEqSearch4", hEqSearch4)
	vpRegister("hEqInsertPos4", hEqInsertPos4)
	vpRegister("hEqSearch16", hEqSearch16)
	vpRegister("hEqInsertPos16", hEqInsertPos16)
}

func hEqSearch4() {
	keys, b := vpU32(), vpU8()
	got := searchNode4(keys, b)
	want := specSearchNode4(keys, b)
	vpTrace("got", uint64(got))
	vpAssert(got == want, "C10 searchNode4 equals the scalar scan")
}

func hEqInsertPos4() {
	keys, b := vpU32(), vpU8()
	got := insertPosNode4(keys, b)
	want := specInsertPosNode4(keys, b)
	vpTrace("got", uint64(got))
	vpAssert(got == want, "C10 insertPosNode4 equals the scalar scan")
}

func symKeys16() *[16]byte {
	var keys [16]byte
	for i := range keys {
		keys[i] = vpU8()
	}
	return &keys
}

// param 0: childrenLen (0..16 concrete; 255 = symbolic over the whole uint8 range <= 16)
func hEqSearch16() {
	keys := symKeys16()
	b := vpU8()
	n := uint8(vpParam(0))
	if vpParam(0) == 255 {
		n = vpU8()
		vpAssume(n <= 16)
	}
	got := searchNode16(keys, n, b)
	want := specSearchNode16(keys, n, b)
	vpTrace("got", uint64(got))
	vpAssert(got == want, "C10 searchNode16 equals the scalar scan")
}

func hEqInsertPos16() {
	keys := symKeys16()
	b := vpU8()
	n := uint8(vpParam(0))
	if vpParam(0) == 255 {
		n = vpU8()
		vpAssume(n <= 16)
	}
	got := insertPosNode16(keys, n, b)
	want := specInsertPosNode16(keys, n, b)
	vpTrace("got", uint64(got))
	vpAssert(got == want, "C10 insertPosNode16 equals the scalar scan")
}
