//go:build verif

package art

// C07: the numeric key codecs are order isomorphisms with exact round trip, for every value of the type.
// The order on floats is stated in the solver's FP theory (vpFp* predicates), not in the executor's
// own bit-vector encoding of float comparisons.

import (
	"math"
)

func init() { vpRegister("hCodec", hCodec) }

// codecObl: the obligations for one integer type; less is the type's native order.
func codecObl[K uints | ints](bck BinaryComparableKey[K], width int, gen func() K) {
	x, y := gen(), gen()
	ex, ex2 := bck.Transform(x)
	ey, _ := bck.Transform(y)
	vpTrace("enc0", uint64(ex[0]))
	vpAssert(len(ex) == width && len(ey) == width, "C07 encoding has the fixed width of the type")
	vpAssert(len(ex2) == width && vpEqBytes(ex, ex2), "C07 both results of Transform are the same encoding")
	vpAssert(vpLessBytes(ex, ey) == (x < y), "C07 x<y exactly when enc(x) is bytewise smaller than enc(y)")
	vpAssert(vpEqBytes(ex, ey) == (x == y), "C07 encoding is injective")
	vpAssert(bck.Restore(ex) == x, "C07 Restore(Transform(x)) == x")
	// tuples: concatenations order lexicographically
	x2, y2 := gen(), gen()
	e2x, _ := bck.Transform(x2)
	e2y, _ := bck.Transform(y2)
	cx := append(append([]byte(nil), ex...), e2x...)
	cy := append(append([]byte(nil), ey...), e2y...)
	tupLess := vpOr(x < y, vpAnd(x == y, x2 < y2))
	vpAssert(vpLessBytes(cx, cy) == tupLess, "C07 concatenated encodings order tuples lexicographically")
}

// float order of the property: NaN < -Inf < negatives < -0 < +0 < positives < +Inf, all NaNs alike;
// stated with the FP theory's fp.lt / fp.eq / fp.isNaN on the bit patterns.
func fpLess32(a, b uint32) bool {
	an, bn := vpFpIsNaN32(a), vpFpIsNaN32(b)
	num := vpOr(vpFpLt32(a, b), vpAnd(vpFpEq32(a, b), vpAnd(a>>31 == 1, b>>31 == 0)))
	return vpOr(vpAnd(an, !bn), vpAnd(vpAnd(!an, !bn), num))
}

func fpLess64(a, b uint64) bool {
	an, bn := vpFpIsNaN64(a), vpFpIsNaN64(b)
	num := vpOr(vpFpLt64(a, b), vpAnd(vpFpEq64(a, b), vpAnd(a>>63 == 1, b>>63 == 0)))
	return vpOr(vpAnd(an, !bn), vpAnd(vpAnd(!an, !bn), num))
}

func codecF32() {
	bck := FloatBinaryKey[float32]{}
	a, b := vpU32(), vpU32()
	x, y := math.Float32frombits(a), math.Float32frombits(b)
	ex, ex2 := bck.Transform(x)
	ey, _ := bck.Transform(y)
	vpTrace("enc0", uint64(ex[0]))
	vpAssert(len(ex) == 4 && len(ey) == 4, "C07 encoding has the fixed width of the type")
	vpAssert(len(ex2) == 4 && vpEqBytes(ex, ex2), "C07 both results of Transform are the same encoding")
	vpAssert(vpLessBytes(ex, ey) == fpLess32(a, b), "C07 float order (NaN<-Inf<..<-0<+0<..<+Inf) exactly matches bytewise order of the encodings")
	same := vpOr(a == b, vpAnd(vpFpIsNaN32(a), vpFpIsNaN32(b)))
	vpAssert(vpEqBytes(ex, ey) == same, "C07 encoding is injective (all NaNs encode alike)")
	r := math.Float32bits(bck.Restore(ex))
	vpAssert(vpIteBool(vpFpIsNaN32(a), vpFpIsNaN32(r), r == a), "C07 Restore(Transform(x)) is x bit for bit (NaN for NaN)")
}

func codecF64() {
	bck := FloatBinaryKey[float64]{}
	a, b := vpU64(), vpU64()
	x, y := math.Float64frombits(a), math.Float64frombits(b)
	ex, ex2 := bck.Transform(x)
	ey, _ := bck.Transform(y)
	vpTrace("enc0", uint64(ex[0]))
	vpAssert(len(ex) == 8 && len(ey) == 8, "C07 encoding has the fixed width of the type")
	vpAssert(len(ex2) == 8 && vpEqBytes(ex, ex2), "C07 both results of Transform are the same encoding")
	vpAssert(vpLessBytes(ex, ey) == fpLess64(a, b), "C07 float order (NaN<-Inf<..<-0<+0<..<+Inf) exactly matches bytewise order of the encodings")
	same := vpOr(a == b, vpAnd(vpFpIsNaN64(a), vpFpIsNaN64(b)))
	vpAssert(vpEqBytes(ex, ey) == same, "C07 encoding is injective (all NaNs encode alike)")
	r := math.Float64bits(bck.Restore(ex))
	vpAssert(vpIteBool(vpFpIsNaN64(a), vpFpIsNaN64(r), r == a), "C07 Restore(Transform(x)) is x bit for bit (NaN for NaN)")
}

// param 0: type id (2..13 as in hHist); param 1: machine word bytes expected for int/uint (4 or 8)
func hCodec() {
	wb := vpParam(1)
	switch vpParam(0) {
	case 2:
		codecObl[uint8](UnsignedBinaryKey[uint8]{}, 1, vpU8)
	case 3:
		codecObl[uint16](UnsignedBinaryKey[uint16]{}, 2, vpU16)
	case 4:
		codecObl[uint32](UnsignedBinaryKey[uint32]{}, 4, vpU32)
	case 5:
		codecObl[uint64](UnsignedBinaryKey[uint64]{}, 8, vpU64)
	case 6:
		codecObl[uint](UnsignedBinaryKey[uint]{}, wb, func() uint { return uint(vpU64()) })
	case 7:
		codecObl[int8](SignedBinaryKey[int8]{}, 1, func() int8 { return int8(vpU8()) })
	case 8:
		codecObl[int16](SignedBinaryKey[int16]{}, 2, func() int16 { return int16(vpU16()) })
	case 9:
		codecObl[int32](SignedBinaryKey[int32]{}, 4, func() int32 { return int32(vpU32()) })
	case 10:
		codecObl[int64](SignedBinaryKey[int64]{}, 8, func() int64 { return int64(vpU64()) })
	case 11:
		codecObl[int](SignedBinaryKey[int]{}, wb, func() int { return int(vpU64()) })
	case 12:
		codecF32()
	case 13:
		codecF64()
	default:
		vpFail("unknown codec type")
	}
}
