//go:build verif

package art

// C09: compound trees for every contract-respecting codec.
//  (1) table codec: key ids 0..7, encodings = symbolic bytes of template-given lengths under
//      assume(injective ∧ prefix-free); the key order is by definition the byte order of the encodings.
//      Any contract-respecting codec restricted to the keys of one history is such a table.
//  (2) schema codec built from the library's own codecs: uint16 ‖ string ‖ 0x00, symbolic field values.

func init() { vpRegister("hCompound", hCompound) }

// ids 8..71 have concrete two-byte encodings {0x30, 3*id+1} (fan-out bases); ids 0..7 symbolic ones
type tableCodec struct {
	tab     [72][]byte
	defined [72]bool
}

func (c *tableCodec) Transform(id int) ([]byte, []byte) {
	b := c.tab[id]
	return b, b
}

func (c *tableCodec) Restore(b []byte) int {
	id := -1
	for i := range c.tab {
		if c.defined[i] {
			id = vpIteInt(vpEqBytes(c.tab[i], b), i, id)
		}
	}
	return id
}

// spec: id | encoding length << 4
func (c *tableCodec) define(spec int) int {
	id := spec & 15
	n := (spec >> 4) & 0xff
	if spec&(1<<20) != 0 {
		id = spec & 0xff
	}
	if !c.defined[id] {
		var e []byte
		if id == 71 {
			e = []byte{0x50, 0x01} // the one generated entry that branches off at the first byte
		} else if id >= 8 {
			e = []byte{0x30, byte(3*id + 1)}
		} else if spec&(1<<12) != 0 {
			// stemmed 14-byte encoding: symbolic bytes at positions 0, 6, 12, 13, concrete bytes in between —
			// two fields' worth of key with long shared runs (compressed paths beyond the inline limit below a branch)
			n = 14
			e = make([]byte, 14)
			for i := range e {
				switch i {
				case 0, 6, 12, 13:
					e[i] = vpU8()
				default:
					e[i] = byte(0x60 + i)
				}
			}
		} else {
			e = vpBytes(n & 0xff)
		}
		for j := range c.tab {
			if c.defined[j] {
				vpAssume(!vpEqBytes(c.tab[j], e))       // injective
				vpAssume(!properPrefixRel(c.tab[j], e)) // prefix-free
			}
		}
		c.tab[id] = e
		c.defined[id] = true
	}
	return id
}

func hkTable() *hk[int] {
	c := &tableCodec{}
	lv := lvCompound()
	enc := func(id int) []byte {
		if id < 0 || id >= len(c.tab) || !c.defined[id] {
			vpFail("C09 a key was returned that the codec never produced")
		}
		return c.tab[id]
	}
	return &hk[int]{
		retainSlack: 4096, // the harness's own table codec (reachable through tree.bck) grows as keys are defined
		lv:          lv,
		state: func(t Tree[int, uint64]) vpTreeState {
			tt := t.(*compoundSortedTree[int, uint64])
			return vpTreeState{tt.root, tt.size, lv}
		},
		newTree: func() Tree[int, uint64] { return NewCompoundTree[int, uint64](c) },
		tkeyOf:  enc,
		newKey:  c.define,
		concKey: func(spec int) int { return c.define(spec | 1<<20) },
		clone:   func(k int) int { return k },
		eq:      func(a, b int) bool { return a == b },
		less:    func(a, b int) bool { return vpLessBytes(enc(a), enc(b)) },
		trace:   func(tag string, k int) { vpTrace(tag, uint64(k)) },
	}
}

// ---- schema codec ------------------------------------------------------------------------------

type pairKey struct {
	n uint16
	s string
}

type pairCodec struct{}

func (pairCodec) Transform(k pairKey) ([]byte, []byte) {
	b, _ := UnsignedBinaryKey[uint16]{}.Transform(k.n)
	b = append(b, k.s...)
	b = append(b, 0)
	return b, b
}

func (pairCodec) Restore(b []byte) pairKey {
	n := UnsignedBinaryKey[uint16]{}.Restore(b[:2])
	return pairKey{n, string(b[2 : len(b)-1])}
}

func hkPair() *hk[pairKey] {
	lv := lvCompound()
	return &hk[pairKey]{
		lv: lv,
		state: func(t Tree[pairKey, uint64]) vpTreeState {
			tt := t.(*compoundSortedTree[pairKey, uint64])
			return vpTreeState{tt.root, tt.size, lv}
		},
		newTree: func() Tree[pairKey, uint64] { return NewCompoundTree[pairKey, uint64](pairCodec{}) },
		tkeyOf:  func(k pairKey) []byte { b, _ := pairCodec{}.Transform(k); return b },
		// spec = length of the string field
		newKey: func(spec int) pairKey {
			s := vpBytes(spec)
			for i := range s {
				vpAssume(s[i] != 0) // terminated string field: no embedded terminator (the codec's contract)
			}
			return pairKey{vpU16(), string(s)}
		},
		concKey: func(spec int) pairKey { return pairKey{uint16(spec), ""} },
		clone:   func(k pairKey) pairKey { return k },
		eq:      func(a, b pairKey) bool { return vpAnd(a.n == b.n, a.s == b.s) },
		less:    func(a, b pairKey) bool { return vpOr(a.n < b.n, vpAnd(a.n == b.n, a.s < b.s)) },
		trace:   func(tag string, k pairKey) { vpTrace(tag, uint64(k.n)) },
	}
}

// params as hHist; kind 17 table codec, 18 schema codec
func hCompound() {
	switch vpParam(0) {
	case 17:
		runHist(hkTable())
	case 18:
		runHist(hkPair())
	default:
		vpFail("unknown compound kind")
	}
}
