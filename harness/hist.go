//go:build verif

package art

// Template-driven update histories with a fork-free reference map (DESIGN §3.1, §5).
//
// Parameters (vpParam):
//   0 kind   1 check mask   2 known-class mode   3 pool mode   4 nOps
//   then nOps × (opKind, keySpec)
//   then probe section: nProbe specs used by the checks that are switched on.

import (
	"math"
	"unsafe"
)

const (
	ckMap    = 1 << iota // C01: Search/Delete results
	ckSize               // C06
	ckIter               // C02
	ckExt                // C05
	ckRange              // C03
	ckPrefix             // C04
	ckShape              // C11
	ckReiter             // C14
	ckPure               // C15
	ckRetain             // C17
	ckAlias              // C13
)

const (
	opInsert = 0
	opDelete = 1
	opSearch = 2
	// concrete keys (fan-out bases): spec packs len<<24 | b0<<16 | b1<<8 | b2 for byte strings, the value for numbers
	opInsertC = 3
	opDeleteC = 4
)

// hk describes one tree kind / key type to the generic history driver.
type hk[K any] struct {
	newTree     func() Tree[K, uint64]
	newKey      func(spec int) K
	concKey     func(spec int) K
	clone       func(K) K
	eq          func(a, b K) bool // oracle equality (no fork)
	less        func(a, b K) bool // oracle strict order (no fork)
	trace       func(tag string, k K)
	scratch     bool    // the key codec keeps per-call scratch state (collation): excluded from the reader premise
	retainSlack uint64  // bytes an emptied tree may hold beyond a new one (codec scratch owned by the key codec)
	onInsert    func(K) // kind-specific premise on stored keys (collation: the collator tells stored strings apart)
	lv          *leafView
	state       func(t Tree[K, uint64]) vpTreeState
	tkeyOf      func(K) []byte // the search key the tree derives from k (codec output); nil: content clause of C11 skipped
	// byte-string kinds only
	bytesOf func(K) []byte
	isAlpha bool
	// numeric kinds: carve-outs of C03
	badBound func(a, b K) bool
}

type refEnt[K any] struct {
	k    K
	v    uint64
	live bool
}

type refMap[K any] struct {
	ents []refEnt[K]
	h    *hk[K]
}

func (r *refMap[K]) put(k K, v uint64) {
	found := false
	for i := range r.ents {
		e := &r.ents[i]
		m := r.h.eq(e.k, k)
		first := vpAnd(m, !found)
		e.v = vpIte64(first, v, e.v)
		e.live = vpOr(e.live, first)
		found = vpOr(found, m)
	}
	r.ents = append(r.ents, refEnt[K]{k: k, v: v, live: !found})
}

func (r *refMap[K]) del(k K) bool {
	was := false
	for i := range r.ents {
		e := &r.ents[i]
		m := r.h.eq(e.k, k)
		was = vpOr(was, vpAnd(e.live, m))
		e.live = vpAnd(e.live, !m)
	}
	return was
}

func (r *refMap[K]) get(k K) (uint64, bool) {
	found := false
	var val uint64
	for i := range r.ents {
		e := &r.ents[i]
		hit := vpAnd(e.live, r.h.eq(e.k, k))
		val = vpIte64(hit, e.v, val)
		found = vpOr(found, hit)
	}
	return val, found
}

func (r *refMap[K]) count() uint64 {
	var n uint64
	for i := range r.ents {
		n += vpB2U(r.ents[i].live)
	}
	return n
}

// member: (k,v) is a live entry with its current value
func (r *refMap[K]) member(k K, v uint64) bool {
	ok := false
	for i := range r.ents {
		e := &r.ents[i]
		ok = vpOr(ok, vpAnd(vpAnd(e.live, r.h.eq(e.k, k)), e.v == v))
	}
	return ok
}

type yielded[K any] struct {
	ks []K
	vs []uint64
}

func collect[K any](seq func(yield func(K, uint64) bool)) *yielded[K] {
	y := &yielded[K]{}
	seq(func(k K, v uint64) bool {
		y.ks = append(y.ks, k)
		y.vs = append(y.vs, v)
		return true
	})
	return y
}

// sortedContent: y is exactly the live content restricted by in(), strictly ascending (or descending).
// leavesAreContent: every live key of the reference is the search key of a leaf the structural walker reaches
// (with the current value); together with the cardinality clause the reachable leaves are exactly the content.
func leavesAreContent[K any](h *hk[K], st vpTreeState, r *refMap[K]) bool {
	var ls []unsafe.Pointer
	wfLeaves(st.root, &ls, 0)
	ok := true
	for i := range r.ents {
		e := &r.ents[i]
		tk := h.tkeyOf(e.k)
		hit := false
		for _, p := range ls {
			hit = vpOr(hit, vpAnd(vpEqBytes(st.lv.tkey(p), tk), st.lv.val(p) == e.v))
		}
		ok = vpAnd(ok, vpOr(!e.live, hit))
	}
	return ok
}

func sortedContent[K any](r *refMap[K], y *yielded[K], desc bool, in func(K) bool) bool {
	ok := true
	for i := 0; i+1 < len(y.ks); i++ {
		if desc {
			ok = vpAnd(ok, r.h.less(y.ks[i+1], y.ks[i]))
		} else {
			ok = vpAnd(ok, r.h.less(y.ks[i], y.ks[i+1]))
		}
	}
	for i := range y.ks {
		ok = vpAnd(ok, r.member(y.ks[i], y.vs[i]))
		if in != nil {
			ok = vpAnd(ok, in(y.ks[i]))
		}
	}
	var n uint64
	for i := range r.ents {
		c := r.ents[i].live
		if in != nil {
			c = vpAnd(c, in(r.ents[i].k))
		}
		n += vpB2U(c)
	}
	return vpAnd(ok, n == uint64(len(y.ks)))
}

const specConcrete = 1 << 30

// mkKey: a probe / bound key: symbolic of the given shape, or concrete when bit 30 of the spec is set.
func mkKey[K any](h *hk[K], spec int) K {
	if spec >= 0 && spec&specConcrete != 0 {
		return h.concKey(spec &^ specConcrete)
	}
	return h.newKey(spec)
}

func runHist[K any](h *hk[K]) {
	mask := vpParam(1)
	kmode := vpParam(2)
	vpPoolMode(vpParam(3))
	nOps := vpParam(4)
	t := h.newTree()
	var emptyRetained, emptyStruct uint64
	if mask&ckRetain != 0 {
		emptyRetained = vpRetainedTree(t)
		emptyStruct = vpRetained(h.state(t))
	}
	ref := &refMap[K]{h: h}
	var inserted []K
	pi := 5
	for i := 0; i < nOps; i++ {
		op, spec := vpParam(pi), vpParam(pi+1)
		pi += 2
		var k K
		wasConcrete := op == opInsertC || op == opDeleteC
		if wasConcrete {
			k = h.concKey(spec)
			op -= 3
		} else {
			k = h.newKey(spec)
		}
		switch op {
		case opInsert:
			v := vpU64()
			if h.isAlpha && kmode != 2 {
				// known class K0: a terminated key that is a proper prefix of another terminated key
				bad := false
				for _, o := range inserted {
					bad = vpOr(bad, termPrefixRel(h.bytesOf(o), h.bytesOf(k)))
				}
				if kmode == 0 {
					vpAssume(!bad)
				} else if i == nOps-1 {
					vpAssume(bad)
				}
			}
			inserted = append(inserted, k)
			if h.onInsert != nil {
				h.onInsert(k)
			}
			vpApi()
			t.Insert(h.clone(k), v)
			ref.put(k, v)
		case opDelete:
			vpApi()
			got := t.Delete(h.clone(k))
			want := ref.del(k)
			if mask&ckMap != 0 {
				vpAssert(got == want, "C01 delete result")
			}
		}
		if mask&ckSize != 0 {
			vpAssert(uint64(t.Size()) == ref.count(), "C06 size after op")
		}
		// after a run of concrete base operations the walker runs once (at its end); after every symbolic one
		nextConcrete := i+1 < nOps && (vpParam(pi) == opInsertC || vpParam(pi) == opDeleteC)
		if mask&ckShape != 0 && !(wasConcrete && nextConcrete) {
			st := h.state(t)
			st.lv.full256 = false
			vpAssert(wellFormed(st.lv, st.root, st.size), "C11 index well-formed after op")
			vpAssert(!st.lv.full256, "C11 recorded fan-out of a node256 with all 256 children is not 256 (uint8 counter)")
			vpAssert(uint64(st.size) == ref.count(), "C11 reachable keys equal the reference cardinality")
			if h.tkeyOf != nil {
				vpAssert(leavesAreContent(h, st, ref), "C11 every stored key is reachable in the index with its value")
			}
		}
	}
	nProbe := vpParam(pi)
	pi++
	probeAt := pi
	pi += nProbe
	if mask&ckMap != 0 {
		for j := 0; j < nProbe; j++ {
			pk := mkKey(h, vpParam(probeAt+j))
			vpApi()
			got, ok := t.Search(h.clone(pk))
			want, wok := ref.get(pk)
			vpTrace("search.ok", vpB2U(ok))
			vpAssert(ok == wok, "C01 search presence")
			vpAssert(vpOr(!ok, got == want), "C01 search value")
		}
	}
	if mask&ckSize != 0 {
		vpTrace("size", uint64(t.Size()))
	}
	if mask&ckIter != 0 {
		vpApi()
		fw := collect(t.All())
		vpTrace("all.n", uint64(len(fw.ks)))
		for i := range fw.ks {
			h.trace("all.k", fw.ks[i])
		}
		vpAssert(sortedContent(ref, fw, false, nil), "C02 All() is the sorted content")
		vpApi()
		bw := collect(t.Backward())
		vpTrace("bwd.n", uint64(len(bw.ks)))
		vpAssert(sortedContent(ref, bw, true, nil), "C02 Backward() is the reverse sorted content")
	}
	if mask&ckExt != 0 {
		checkExtremes(h, t, ref)
	}
	if mask&ckRange != 0 {
		emptyEnd := vpParam(pi+1) == -1
		a := mkKey(h, vpParam(pi))
		var b K
		if emptyEnd {
			b = h.concKey(0)
		} else {
			b = mkKey(h, vpParam(pi+1))
		}
		pi += 2
		checkRange(h, t, ref, a, b, emptyEnd)
	}
	if mask&ckPrefix != 0 {
		p := mkKey(h, vpParam(pi))
		pi++
		vpApi()
		y := collect(t.Prefix(h.clone(p)))
		vpTrace("prefix.n", uint64(len(y.ks)))
		pb := h.bytesOf(p)
		in := func(k K) bool { return vpHasPrefix(h.bytesOf(k), pb) }
		vpAssert(sortedContent(ref, y, false, in), "C04 Prefix(p) is exactly the keys starting with p, ascending")
	}
	if mask&ckReiter != 0 {
		method := vpParam(pi)
		sa, sb := vpParam(pi+1), vpParam(pi+2)
		pi += 3
		checkReiter(h, t, ref, method, sa, sb)
	}
	if mask&ckPure != 0 {
		which := vpParam(pi)
		sa, sb := vpParam(pi+1), vpParam(pi+2)
		pi += 3
		checkPure(h, t, ref, which, sa, sb)
	}
	if mask&ckRetain != 0 {
		cyc, spec := vpParam(pi), vpParam(pi+1)
		pi += 2
		checkRetain(h, t, ref, cyc, spec, emptyRetained, emptyStruct, inserted)
	}
}

// checkRetain (C17): the memory reachable from the tree (nodes, leaves, key storage, codec scratch) after
// k+1 repetitions of a cycle equals that after one repetition (one warm-up absorbs the 4<->16 hysteresis);
// by induction on the number of repetitions the retained size does not depend on the length of the history.
// Under the executor vpRetainedTree is the exact byte count of the objects reachable in its heap model and
// the cycle runs twice; natively it is the live heap after two forced collections and the cycle runs 100000
// times, so a per-operation leak shows as growth far above the slack.
func checkRetain[K any](h *hk[K], t Tree[K, uint64], ref *refMap[K], cyc, spec int, rEmpty, emptyStruct uint64, inserted []K) {
	k := mkKey(h, spec)
	if h.isAlpha {
		// the cycle inserts k: keep it outside the known class K0 (judged by C01)
		bad := false
		for _, o := range inserted {
			bad = vpOr(bad, termPrefixRel(h.bytesOf(o), h.bytesOf(k)))
		}
		vpAssume(!bad)
	}
	if h.onInsert != nil && (cyc == 2 || cyc == 1 || cyc == 3) {
		h.onInsert(k)
	}
	_, present := ref.get(k)
	switch cyc {
	case 1, 3:
		vpAssume(present)
	case 2:
		vpAssume(!present)
	}
	v := vpU64()
	cycle := func() {
		vpApi()
		switch cyc {
		case 0: // read-only queries
			t.Search(h.clone(k))
			t.Minimum()
			t.Maximum()
			collect(t.All())
			collect(t.Backward())
			if h.bytesOf != nil {
				collect(t.Prefix(h.clone(k)))
			}
			collect(t.Range(h.clone(k), h.clone(k))) // result not judged here (C03); memory is
			collect(t.TopK(1))
			collect(t.BottomK(1))
		case 10:
			t.Search(h.clone(k))
		case 11:
			t.Minimum()
			t.Maximum()
		case 12:
			collect(t.All())
			collect(t.Backward())
		case 13:
			if h.bytesOf != nil {
				collect(t.Prefix(h.clone(k)))
			}
		case 14: // a Range-only history (a mixed one can hide a leak that another method resets)
			collect(t.Range(h.clone(k), h.clone(k)))
		case 15:
			collect(t.TopK(1))
			collect(t.BottomK(1))
		case 1: // overwrite of a present key
			t.Insert(h.clone(k), v)
		case 2: // insert an absent key, delete it again
			t.Insert(h.clone(k), v)
			t.Delete(h.clone(k))
		case 3: // delete a present key, insert it again
			t.Delete(h.clone(k))
			t.Insert(h.clone(k), v)
		}
	}
	// no removed leaf stays reachable through a slot beyond a node's fan-out: what the index keeps alive is exactly
	// what it stores
	pinned := func() bool {
		st := h.state(t)
		return vpReachableLeaves(st) <= uint64(st.size)
	}
	vpAssert(pinned(), "C17 removed leaves stay reachable through unoccupied slots of the index (before the cycle)")
	cycle() // warm-up
	r1 := vpRetainedTree(t)
	n := vpReps(2, 100000)
	for i := 0; i < n; i++ {
		cycle()
	}
	r2 := vpRetainedTree(t)
	vpTrace("retained.same", vpB2U(vpNoGrowth(r1, r2, 0)))
	vpAssert(vpNoGrowth(r1, r2, 0), "C17 retained memory grew although the content did not (per-operation leak)")
	vpAssert(pinned(), "C17 removed leaves stay reachable through unoccupied slots of the index (after the cycles)")
	if cyc == 3 {
		// finally delete everything: the tree keeps no more than an empty tree plus a small constant
		for i := range ref.ents {
			t.Delete(h.clone(ref.ents[i].k))
		}
		t.Delete(h.clone(k))
		r3 := vpRetainedTree(t)
		// a tree emptied by deletion holds what a new tree holds (codec scratch of collation trees: the last key)
		slack := h.retainSlack
		vpAssert(vpNoGrowth(rEmpty, r3, slack), "C17 an emptied tree retains more than a new tree plus a small constant")
		// the index itself (nodes and leaves reachable from the root) is measured exactly on both sides: the live-heap
		// measure of a native replay cannot see a few hundred bytes, the structural one can
		vpAssert(vpRetained(h.state(t)) <= emptyStruct, "C17 an emptied tree still holds index nodes")
	}
}

// checkPure: one read-only or no-op call must leave every cell reachable from the tree untouched (C15);
// for the pure queries it must also not store to any memory that existed before the call (C16 reader premise).
func checkPure[K any](h *hk[K], t Tree[K, uint64], ref *refMap[K], which, sa, sb int) {
	var k K
	var nv uint64
	switch which {
	case 6: // Delete of an absent key
		k = mkKey(h, sa)
		_, present := ref.get(k)
		vpAssume(!present)
	case 7: // Insert of a present key
		k = mkKey(h, sa)
		_, present := ref.get(k)
		vpAssume(present)
		nv = vpU64()
	}
	var before *yielded[K]
	if which == 7 {
		before = collect(t.All())
	}
	snap := vpSnapshot(h.state(t))
	pool0 := vpPoolOps()
	if vpRaceNative() && which <= 5 {
		// native confirmation of the reader premise: the same query from two goroutines on the quiescent tree
		var q func()
		switch which {
		case 0:
			k0 := mkKey(h, sa)
			q = func() { t.Search(h.clone(k0)) }
		case 1:
			q = func() { t.Minimum(); t.Maximum(); t.Size() }
		case 2:
			q = func() { collect(t.All()); collect(t.Backward()) }
		case 3:
			k0 := mkKey(h, sa)
			q = func() { collect(t.Prefix(h.clone(k0))) }
		case 4:
			a, b := mkKey(h, sa), mkKey(h, sb)
			q = func() { collect(t.Range(h.clone(a), h.clone(b))) }
		case 5:
			n1, n2 := uint(vpU64()), uint(vpU64())
			q = func() { collect(t.TopK(n1)); collect(t.BottomK(n2)) }
		}
		vpRunConcurrently(q, q)
		return
	}
	// the arguments exist before the window opens: building a key may write harness state (the table codec
	// registers an encoding), which is not a store made by the query
	var qa, qb K
	switch which {
	case 0, 3:
		qa = h.clone(mkKey(h, sa))
	case 4:
		a, b := mkKey(h, sa), mkKey(h, sb)
		if h.badBound != nil {
			vpAssume(!h.badBound(a, b))
		}
		qa, qb = h.clone(a), h.clone(b)
	}
	vpReaderWindow(1)
	vpApi()
	switch which {
	case 0:
		t.Search(qa)
	case 1:
		t.Minimum()
		t.Maximum()
		t.Size()
	case 2:
		collect(t.All())
		collect(t.Backward())
	case 3:
		collect(t.Prefix(qa))
	case 4:
		collect(t.Range(qa, qb))
	case 5:
		collect(t.TopK(uint(vpU64())))
		collect(t.BottomK(uint(vpU64())))
	case 6:
		got := t.Delete(h.clone(k))
		vpAssert(!got, "C15 Delete of an absent key reports false")
	case 7:
		t.Insert(h.clone(k), nv)
	}
	vpReaderWindow(0)
	if which == 7 {
		vpAssert(vpUnchangedButValues(snap, h.state(t)), "C15 Insert of a present key changes nothing but that key's value")
		after := collect(t.All())
		if len(after.ks) != len(before.ks) {
			vpFail("C15 Insert of a present key changed the number of pairs")
		}
		ok := true
		for i := range before.ks {
			same := h.eq(before.ks[i], after.ks[i])
			isK := h.eq(before.ks[i], k)
			ok = vpAnd(ok, vpAnd(same, vpIteBool(isK, after.vs[i] == nv, after.vs[i] == before.vs[i])))
		}
		vpAssert(ok, "C15 Insert of a present key changes exactly that key's value")
	} else {
		vpAssert(vpUnchanged(snap, h.state(t)), "C15 read-only / no-op call left the tree untouched")
	}
	vpAssert(vpPoolOps() == pool0, "C15 read-only / no-op call caused no node-pool traffic")
	if which <= 5 && !h.scratch {
		vpAssert(vpReaderWrites() == 0, "C16 a query stored to memory that existed before the call")
	}
}

func le[K any](h *hk[K], a, b K) bool { return !h.less(b, a) }

func checkExtremes[K any](h *hk[K], t Tree[K, uint64], ref *refMap[K]) {
	cnt := ref.count()
	vpApi()
	mk, mv, mok := t.Minimum()
	vpTrace("min.ok", vpB2U(mok))
	okMin := mok == (cnt != 0)
	if mok {
		okMin = vpAnd(okMin, ref.member(mk, mv))
		for i := range ref.ents {
			e := &ref.ents[i]
			okMin = vpAnd(okMin, !vpAnd(e.live, h.less(e.k, mk)))
		}
	}
	vpAssert(okMin, "C05 Minimum() is the smallest stored pair / reports none exactly when empty")
	vpApi()
	xk, xv, xok := t.Maximum()
	okMax := xok == (cnt != 0)
	if xok {
		okMax = vpAnd(okMax, ref.member(xk, xv))
		for i := range ref.ents {
			e := &ref.ents[i]
			okMax = vpAnd(okMax, !vpAnd(e.live, h.less(xk, e.k)))
		}
	}
	vpAssert(okMax, "C05 Maximum() is the largest stored pair / reports none exactly when empty")
	// BottomK / TopK with a fully symbolic n (on large fan-out bases: n in {0,1,2} or n >= size, to bound the forks)
	n := uint(vpU64())
	m := uint(vpU64())
	if len(ref.ents) > 20 {
		vpAssume(vpOr(n <= 2, uint64(n) >= cnt))
		vpAssume(vpOr(m <= 2, uint64(m) >= cnt))
	}
	vpApi()
	bk := collect(t.BottomK(n))
	vpTrace("bottomk.n", uint64(len(bk.ks)))
	vpAssert(firstK(h, ref, bk, false, uint64(n)), "C05 BottomK(n) is the first min(n,size) pairs ascending")
	vpApi()
	tk := collect(t.TopK(m))
	vpTrace("topk.n", uint64(len(tk.ks)))
	vpAssert(firstK(h, ref, tk, true, uint64(m)), "C05 TopK(n) is the first min(n,size) pairs descending")
}

// firstK: y is the first min(n,size) elements of the ascending (descending) content.
func firstK[K any](h *hk[K], r *refMap[K], y *yielded[K], desc bool, n uint64) bool {
	ok := true
	for i := 0; i+1 < len(y.ks); i++ {
		if desc {
			ok = vpAnd(ok, h.less(y.ks[i+1], y.ks[i]))
		} else {
			ok = vpAnd(ok, h.less(y.ks[i], y.ks[i+1]))
		}
	}
	for i := range y.ks {
		ok = vpAnd(ok, r.member(y.ks[i], y.vs[i]))
	}
	cnt := r.count()
	want := vpIte64(n < cnt, n, cnt)
	ok = vpAnd(ok, want == uint64(len(y.ks)))
	if len(y.ks) > 0 {
		last := y.ks[len(y.ks)-1]
		// every live entry is either yielded (not beyond last) or lies beyond the last yielded one
		for i := range r.ents {
			e := &r.ents[i]
			isY := false
			for j := range y.ks {
				isY = vpOr(isY, h.eq(e.k, y.ks[j]))
			}
			var beyond bool
			if desc {
				beyond = h.less(e.k, last)
			} else {
				beyond = h.less(last, e.k)
			}
			ok = vpAnd(ok, vpOr(!e.live, vpOr(isY, beyond)))
		}
	}
	return ok
}

func checkRange[K any](h *hk[K], t Tree[K, uint64], ref *refMap[K], a, b K, emptyEnd bool) {
	if h.bytesOf != nil && len(h.bytesOf(b)) == 0 {
		emptyEnd = true // byte-string trees: an empty end bound means "up to the largest stored key"
	}
	if h.badBound != nil {
		vpAssume(!h.badBound(a, b))
	}
	var in func(K) bool
	if emptyEnd {
		// byte-string trees: an empty end bound means "up to the largest stored key";
		// carved out: start above the maximum of a non-empty tree
		someGE := false
		for i := range ref.ents {
			e := &ref.ents[i]
			someGE = vpOr(someGE, vpAnd(e.live, le(h, a, e.k)))
		}
		vpAssume(vpOr(ref.count() == 0, someGE))
		in = func(k K) bool { return le(h, a, k) }
	} else {
		in = func(k K) bool {
			return vpOr(vpAnd(le(h, a, k), le(h, k, b)), vpAnd(le(h, b, k), le(h, k, a)))
		}
	}
	vpApi()
	y := collect(t.Range(h.clone(a), h.clone(b)))
	vpTrace("range.n", uint64(len(y.ks)))
	for i := range y.ks {
		h.trace("range.k", y.ks[i])
	}
	vpAssert(sortedContent(ref, y, false, in), "C03 Range(a,b) is exactly the stored keys between the bounds, ascending")
}

// seqOf returns the sequence under test for C14.
func seqOf[K any](h *hk[K], t Tree[K, uint64], method, sa, sb int) func(yield func(K, uint64) bool) {
	switch method {
	case 0:
		return t.All()
	case 1:
		return t.Backward()
	case 2:
		return t.Prefix(h.clone(mkKey(h, sa)))
	case 3:
		a, b := mkKey(h, sa), mkKey(h, sb)
		if h.badBound != nil {
			vpAssume(!h.badBound(a, b))
		}
		return t.Range(h.clone(a), h.clone(b))
	case 4:
		return t.TopK(uint(vpU64()))
	case 5:
		return t.BottomK(uint(vpU64()))
	}
	vpFail("unknown sequence method")
	return nil
}

func checkReiter[K any](h *hk[K], t Tree[K, uint64], ref *refMap[K], method, sa, sb int) {
	vpApi()
	seq := seqOf(h, t, method, sa, sb)
	full := collect(seq) // first complete pass
	vpTrace("reiter.n", uint64(len(full.ks)))
	// a pass abandoned after a symbolic number of elements
	stopAt := uint64(vpU8())
	var calls uint64
	stopped := false
	seq(func(k K, v uint64) bool {
		if stopped {
			vpFail("C14 yield called again after it returned false")
		}
		calls++
		if calls == stopAt {
			stopped = true
			return false
		}
		return true
	})
	// ranging over the same sequence value again yields the full result again — also when read-only calls
	// (which leave the tree unchanged) happen in between
	for pass := 0; pass < 2; pass++ {
		if pass == 1 {
			if len(full.ks) > 0 {
				t.Search(h.clone(full.ks[0]))
				collect(t.Range(h.clone(full.ks[0]), h.clone(full.ks[len(full.ks)-1])))
			}
			t.Minimum()
		}
		again := collect(seq)
		ok := len(again.ks) == len(full.ks)
		if ok {
			same := true
			for i := range full.ks {
				same = vpAnd(same, vpAnd(h.eq(again.ks[i], full.ks[i]), again.vs[i] == full.vs[i]))
			}
			vpAssert(same, "C14 re-iteration yields the same elements as the first complete pass")
		} else {
			vpFail("C14 re-iteration yields a different number of elements than the first complete pass")
		}
	}
}

// termPrefixRel: a+0x00 is a proper prefix of b+0x00 or vice versa.
func termPrefixRel(a, b []byte) bool {
	if len(a) == len(b) {
		return false
	}
	if len(a) > len(b) {
		a, b = b, a
	}
	// a shorter: need b[:len(a)] == a and b[len(a)] == 0
	return vpAnd(vpEqBytes(b[:len(a)], a), b[len(a)] == 0)
}

// ---------------------------------------------------------------------------------------------
// kinds

// alpha key spec: tail length | stem length<<4 | (mutated stem position+1)<<10
func alphaKeyBytes(spec int) []byte {
	tail := spec & 15
	stem := (spec >> 4) & 63
	mut := spec >> 10
	b := make([]byte, 0, stem+tail)
	for i := 0; i < stem; i++ {
		b = append(b, byte('a'+i))
	}
	if mut > 0 {
		b[mut-1] = vpU8()
	}
	b = append(b, vpBytes(tail)...)
	return b
}

func alphaConcKey(spec int) []byte {
	if spec&(1<<29) != 0 {
		// the shared concrete stem of alphaKeyBytes (length bits 16..23), optionally followed by one byte
		p := (spec >> 16) & 0xff
		b := make([]byte, 0, p+1)
		for i := 0; i < p; i++ {
			b = append(b, byte('a'+i))
		}
		if spec&(1<<28) == 0 {
			b = append(b, byte(spec))
		}
		return b
	}
	n := spec >> 24
	b := make([]byte, 0, n)
	for i := 0; i < n; i++ {
		b = append(b, byte(spec>>(16-8*i)))
	}
	return b
}

func traceBytes(tag string, b []byte) {
	var x uint64
	for i := 0; i < len(b) && i < 8; i++ {
		x = x<<8 | uint64(b[i])
	}
	vpTrace(tag, x<<8|uint64(len(b)))
}

func hkAlphaBytes() *hk[[]byte] {
	lv := lvAlpha()
	return &hk[[]byte]{
		lv: lv,
		state: func(t Tree[[]byte, uint64]) vpTreeState {
			tt := t.(*alphaSortedTree[[]byte, uint64])
			return vpTreeState{tt.root, tt.size, lv}
		},
		newTree: func() Tree[[]byte, uint64] { return NewAlphaSortedTree[[]byte, uint64]() },
		newKey:  alphaKeyBytes,
		concKey: alphaConcKey,
		clone:   func(k []byte) []byte { return append([]byte(nil), k...) },
		eq:      vpEqBytes,
		less:    vpLessBytes,
		trace:   traceBytes,
		bytesOf: func(k []byte) []byte { return k },
		tkeyOf:  func(k []byte) []byte { return append(append([]byte(nil), k...), 0) },
		isAlpha: true,
	}
}

func hkAlphaString() *hk[string] {
	lv := lvAlpha()
	return &hk[string]{
		lv: lv,
		state: func(t Tree[string, uint64]) vpTreeState {
			tt := t.(*alphaSortedTree[string, uint64])
			return vpTreeState{tt.root, tt.size, lv}
		},
		newTree: func() Tree[string, uint64] { return NewAlphaSortedTree[string, uint64]() },
		newKey:  func(spec int) string { return string(alphaKeyBytes(spec)) },
		concKey: func(spec int) string { return string(alphaConcKey(spec)) },
		clone:   func(k string) string { return k },
		eq:      func(a, b string) bool { return a == b },
		less:    func(a, b string) bool { return a < b },
		trace:   func(tag string, k string) { traceBytes(tag, []byte(k)) },
		bytesOf: func(k string) []byte { return []byte(k) },
		tkeyOf:  func(k string) []byte { return append([]byte(k), 0) },
		isAlpha: true,
	}
}

func hkUnsigned[K uints](gen func() K) *hk[K] {
	lv := lvUnsigned()
	return &hk[K]{
		lv: lv,
		state: func(t Tree[K, uint64]) vpTreeState {
			tt := t.(*unsignedSortedTree[K, uint64])
			return vpTreeState{tt.root, tt.size, lv}
		},
		newTree: func() Tree[K, uint64] { return NewUnsignedBinaryTree[K, uint64]() },
		tkeyOf:  func(k K) []byte { b, _ := UnsignedBinaryKey[K]{}.Transform(k); return b },
		newKey:  func(int) K { return gen() },
		concKey: func(spec int) K { return K(spec) },
		clone:   func(k K) K { return k },
		eq:      func(a, b K) bool { return a == b },
		less:    func(a, b K) bool { return a < b },
		trace:   func(tag string, k K) { vpTrace(tag, uint64(k)) },
	}
}

func hkSigned[K ints](gen func() K) *hk[K] {
	lv := lvSigned()
	return &hk[K]{
		lv: lv,
		state: func(t Tree[K, uint64]) vpTreeState {
			tt := t.(*signedSortedTree[K, uint64])
			return vpTreeState{tt.root, tt.size, lv}
		},
		newTree: func() Tree[K, uint64] { return NewSignedBinaryTree[K, uint64]() },
		tkeyOf:  func(k K) []byte { b, _ := SignedBinaryKey[K]{}.Transform(k); return b },
		newKey:  func(int) K { return gen() },
		concKey: func(spec int) K { return K(spec) },
		clone:   func(k K) K { return k },
		eq:      func(a, b K) bool { return a == b },
		less:    func(a, b K) bool { return a < b },
		trace:   func(tag string, k K) { vpTrace(tag, uint64(int64(k))) },
	}
}

func f32Eq(a, b float32) bool {
	return vpOr(vpAnd(a != a, b != b), math.Float32bits(a) == math.Float32bits(b))
}

// NaN < -Inf < ... < -0 < +0 < ... < +Inf
func f32Less(a, b float32) bool {
	an, bn := a != a, b != b
	num := vpOr(a < b, vpAnd(a == b, math.Float32bits(a) > math.Float32bits(b)))
	return vpOr(vpAnd(an, !bn), vpAnd(vpAnd(!an, !bn), num))
}

func f64Eq(a, b float64) bool {
	return vpOr(vpAnd(a != a, b != b), math.Float64bits(a) == math.Float64bits(b))
}

func f64Less(a, b float64) bool {
	an, bn := a != a, b != b
	num := vpOr(a < b, vpAnd(a == b, math.Float64bits(a) > math.Float64bits(b)))
	return vpOr(vpAnd(an, !bn), vpAnd(vpAnd(!an, !bn), num))
}

func hkF32() *hk[float32] {
	lv := lvFloat()
	return &hk[float32]{
		lv: lv,
		state: func(t Tree[float32, uint64]) vpTreeState {
			tt := t.(*floatSortedTree[float32, uint64])
			return vpTreeState{tt.root, tt.size, lv}
		},
		newTree: func() Tree[float32, uint64] { return NewFloatBinaryTree[float32, uint64]() },
		tkeyOf:  func(k float32) []byte { b, _ := FloatBinaryKey[float32]{}.Transform(k); return b },
		newKey:  func(int) float32 { return vpF32() },
		concKey: func(spec int) float32 { return math.Float32frombits(uint32(spec)) },
		// carved out of C03: NaN bounds and the pair (-0,+0)
		badBound: func(a, b float32) bool {
			return vpOr(vpOr(a != a, b != b), vpAnd(a == b, math.Float32bits(a) != math.Float32bits(b)))
		},
		clone: func(k float32) float32 { return k },
		eq:    f32Eq,
		less:  f32Less,
		trace: func(tag string, k float32) {
			b := math.Float32bits(k)
			vpTrace(tag, vpIte64(k != k, 0x7fc00000, uint64(b)))
		},
	}
}

func hkF64() *hk[float64] {
	lv := lvFloat()
	return &hk[float64]{
		lv: lv,
		state: func(t Tree[float64, uint64]) vpTreeState {
			tt := t.(*floatSortedTree[float64, uint64])
			return vpTreeState{tt.root, tt.size, lv}
		},
		newTree: func() Tree[float64, uint64] { return NewFloatBinaryTree[float64, uint64]() },
		tkeyOf:  func(k float64) []byte { b, _ := FloatBinaryKey[float64]{}.Transform(k); return b },
		newKey:  func(int) float64 { return vpF64() },
		concKey: func(spec int) float64 { return float64(math.Float32frombits(uint32(spec))) },
		badBound: func(a, b float64) bool {
			return vpOr(vpOr(a != a, b != b), vpAnd(a == b, math.Float64bits(a) != math.Float64bits(b)))
		},
		clone: func(k float64) float64 { return k },
		eq:    f64Eq,
		less:  f64Less,
		trace: func(tag string, k float64) {
			b := math.Float64bits(k)
			vpTrace(tag, vpIte64(k != k, 0x7ff8000000000000, b))
		},
	}
}

func init() { vpRegister("hHist", hHist) }

func hHist() {
	switch vpParam(0) {
	case 0:
		runHist(hkAlphaBytes())
	case 1:
		runHist(hkAlphaString())
	case 2:
		runHist(hkUnsigned(vpU8))
	case 3:
		runHist(hkUnsigned(vpU16))
	case 4:
		runHist(hkUnsigned(vpU32))
	case 5:
		runHist(hkUnsigned(vpU64))
	case 6:
		runHist(hkUnsigned(func() uint { return uint(vpU64()) }))
	case 7:
		runHist(hkSigned(func() int8 { return int8(vpU8()) }))
	case 8:
		runHist(hkSigned(func() int16 { return int16(vpU16()) }))
	case 9:
		runHist(hkSigned(func() int32 { return int32(vpU32()) }))
	case 10:
		runHist(hkSigned(func() int64 { return int64(vpU64()) }))
	case 11:
		runHist(hkSigned(func() int { return int(vpU64()) }))
	case 12:
		runHist(hkF32())
	case 13:
		runHist(hkF64())
	default:
		vpFail("unknown kind")
	}
}
