//go:build verif

package art

// Template-driven update histories with a fork-free reference map (DESIGN §3.1, §5).
//
// Parameters (vpParam):
//   0 kind   1 check mask   2 known-class mode   3 pool mode   4 nOps
//   then nOps × (opKind, keySpec)
//   then probe section: nProbe specs used by the checks that are switched on.

import (
	"math"
)

const (
	ckMap    = 1 << iota // C01: Search/Delete results
	ckSize               // C06
	ckIter               // C02
	ckExt                // C05
	ckRange              // C03
	ckPrefix             // C04
	ckShape              // C11
	ckReiter             // C14
	ckPure               // C15
	ckRetain             // C17
	ckAlias              // C13
)

const (
	opInsert = 0
	opDelete = 1
	opSearch = 2
)

// hk describes one tree kind / key type to the generic history driver.
type hk[K any] struct {
	newTree func() Tree[K, uint64]
	newKey  func(spec int) K
	clone   func(K) K
	eq      func(a, b K) bool // oracle equality (no fork)
	less    func(a, b K) bool // oracle strict order (no fork)
	trace   func(tag string, k K)
	// byte-string kinds only
	bytesOf func(K) []byte
	isAlpha bool
	// numeric kinds: carve-outs of C03
	badBound func(a, b K) bool
}

type refEnt[K any] struct {
	k    K
	v    uint64
	live bool
}

type refMap[K any] struct {
	ents []refEnt[K]
	h    *hk[K]
}

func (r *refMap[K]) put(k K, v uint64) {
	found := false
	for i := range r.ents {
		e := &r.ents[i]
		m := r.h.eq(e.k, k)
		first := vpAnd(m, !found)
		e.v = vpIte64(first, v, e.v)
		e.live = vpOr(e.live, first)
		found = vpOr(found, m)
	}
	r.ents = append(r.ents, refEnt[K]{k: k, v: v, live: !found})
}

func (r *refMap[K]) del(k K) bool {
	was := false
	for i := range r.ents {
		e := &r.ents[i]
		m := r.h.eq(e.k, k)
		was = vpOr(was, vpAnd(e.live, m))
		e.live = vpAnd(e.live, !m)
	}
	return was
}

func (r *refMap[K]) get(k K) (uint64, bool) {
	found := false
	var val uint64
	for i := range r.ents {
		e := &r.ents[i]
		hit := vpAnd(e.live, r.h.eq(e.k, k))
		val = vpIte64(hit, e.v, val)
		found = vpOr(found, hit)
	}
	return val, found
}

func (r *refMap[K]) count() uint64 {
	var n uint64
	for i := range r.ents {
		n += vpB2U(r.ents[i].live)
	}
	return n
}

// member: (k,v) is a live entry with its current value
func (r *refMap[K]) member(k K, v uint64) bool {
	ok := false
	for i := range r.ents {
		e := &r.ents[i]
		ok = vpOr(ok, vpAnd(vpAnd(e.live, r.h.eq(e.k, k)), e.v == v))
	}
	return ok
}

type yielded[K any] struct {
	ks []K
	vs []uint64
}

func collect[K any](seq func(yield func(K, uint64) bool)) *yielded[K] {
	y := &yielded[K]{}
	seq(func(k K, v uint64) bool {
		y.ks = append(y.ks, k)
		y.vs = append(y.vs, v)
		return true
	})
	return y
}

// sortedContent: y is exactly the live content restricted by in(), strictly ascending (or descending).
func sortedContent[K any](r *refMap[K], y *yielded[K], desc bool, in func(K) bool) bool {
	ok := true
	for i := 0; i+1 < len(y.ks); i++ {
		if desc {
			ok = vpAnd(ok, r.h.less(y.ks[i+1], y.ks[i]))
		} else {
			ok = vpAnd(ok, r.h.less(y.ks[i], y.ks[i+1]))
		}
	}
	for i := range y.ks {
		ok = vpAnd(ok, r.member(y.ks[i], y.vs[i]))
		if in != nil {
			ok = vpAnd(ok, in(y.ks[i]))
		}
	}
	var n uint64
	for i := range r.ents {
		c := r.ents[i].live
		if in != nil {
			c = vpAnd(c, in(r.ents[i].k))
		}
		n += vpB2U(c)
	}
	return vpAnd(ok, n == uint64(len(y.ks)))
}

func runHist[K any](h *hk[K]) {
	mask := vpParam(1)
	kmode := vpParam(2)
	vpPoolMode(vpParam(3))
	nOps := vpParam(4)
	t := h.newTree()
	ref := &refMap[K]{h: h}
	var inserted []K
	pi := 5
	for i := 0; i < nOps; i++ {
		op, spec := vpParam(pi), vpParam(pi+1)
		pi += 2
		k := h.newKey(spec)
		switch op {
		case opInsert:
			v := vpU64()
			if h.isAlpha && kmode != 2 {
				// known class K0: a terminated key that is a proper prefix of another terminated key
				bad := false
				for _, o := range inserted {
					bad = vpOr(bad, termPrefixRel(h.bytesOf(o), h.bytesOf(k)))
				}
				if kmode == 0 {
					vpAssume(!bad)
				} else if i == nOps-1 {
					vpAssume(bad)
				}
			}
			inserted = append(inserted, k)
			vpApi()
			t.Insert(h.clone(k), v)
			ref.put(k, v)
		case opDelete:
			vpApi()
			got := t.Delete(h.clone(k))
			want := ref.del(k)
			if mask&ckMap != 0 {
				vpAssert(got == want, "C01 delete result")
			}
		}
		if mask&ckSize != 0 {
			vpAssert(uint64(t.Size()) == ref.count(), "C06 size after op")
		}
	}
	if mask&ckMap != 0 {
		nProbe := vpParam(pi)
		pi++
		for j := 0; j < nProbe; j++ {
			pk := h.newKey(vpParam(pi))
			pi++
			vpApi()
			got, ok := t.Search(h.clone(pk))
			want, wok := ref.get(pk)
			vpTrace("search.ok", vpB2U(ok))
			vpAssert(ok == wok, "C01 search presence")
			vpAssert(vpOr(!ok, got == want), "C01 search value")
		}
	}
	if mask&ckSize != 0 {
		vpTrace("size", uint64(t.Size()))
	}
	if mask&ckIter != 0 {
		vpApi()
		fw := collect(t.All())
		vpTrace("all.n", uint64(len(fw.ks)))
		for i := range fw.ks {
			h.trace("all.k", fw.ks[i])
		}
		vpAssert(sortedContent(ref, fw, false, nil), "C02 All() is the sorted content")
		vpApi()
		bw := collect(t.Backward())
		vpTrace("bwd.n", uint64(len(bw.ks)))
		vpAssert(sortedContent(ref, bw, true, nil), "C02 Backward() is the reverse sorted content")
	}
}

// termPrefixRel: a+0x00 is a proper prefix of b+0x00 or vice versa.
func termPrefixRel(a, b []byte) bool {
	if len(a) == len(b) {
		return false
	}
	if len(a) > len(b) {
		a, b = b, a
	}
	// a shorter: need b[:len(a)] == a and b[len(a)] == 0
	return vpAnd(vpEqBytes(b[:len(a)], a), b[len(a)] == 0)
}

// ---------------------------------------------------------------------------------------------
// kinds

// alpha key spec: tail length | stem length<<4 | (mutated stem position+1)<<10
func alphaKeyBytes(spec int) []byte {
	tail := spec & 15
	stem := (spec >> 4) & 63
	mut := spec >> 10
	b := make([]byte, 0, stem+tail)
	for i := 0; i < stem; i++ {
		b = append(b, byte('a'+i))
	}
	if mut > 0 {
		b[mut-1] = vpU8()
	}
	b = append(b, vpBytes(tail)...)
	return b
}

func traceBytes(tag string, b []byte) {
	var x uint64
	for i := 0; i < len(b) && i < 8; i++ {
		x = x<<8 | uint64(b[i])
	}
	vpTrace(tag, x<<8|uint64(len(b)))
}

func hkAlphaBytes() *hk[[]byte] {
	return &hk[[]byte]{
		newTree: func() Tree[[]byte, uint64] { return NewAlphaSortedTree[[]byte, uint64]() },
		newKey:  alphaKeyBytes,
		clone:   func(k []byte) []byte { return append([]byte(nil), k...) },
		eq:      vpEqBytes,
		less:    vpLessBytes,
		trace:   traceBytes,
		bytesOf: func(k []byte) []byte { return k },
		isAlpha: true,
	}
}

func hkAlphaString() *hk[string] {
	return &hk[string]{
		newTree: func() Tree[string, uint64] { return NewAlphaSortedTree[string, uint64]() },
		newKey:  func(spec int) string { return string(alphaKeyBytes(spec)) },
		clone:   func(k string) string { return k },
		eq:      func(a, b string) bool { return a == b },
		less:    func(a, b string) bool { return a < b },
		trace:   func(tag string, k string) { traceBytes(tag, []byte(k)) },
		bytesOf: func(k string) []byte { return []byte(k) },
		isAlpha: true,
	}
}

func hkUnsigned[K uints](gen func() K) *hk[K] {
	return &hk[K]{
		newTree: func() Tree[K, uint64] { return NewUnsignedBinaryTree[K, uint64]() },
		newKey:  func(int) K { return gen() },
		clone:   func(k K) K { return k },
		eq:      func(a, b K) bool { return a == b },
		less:    func(a, b K) bool { return a < b },
		trace:   func(tag string, k K) { vpTrace(tag, uint64(k)) },
	}
}

func hkSigned[K ints](gen func() K) *hk[K] {
	return &hk[K]{
		newTree: func() Tree[K, uint64] { return NewSignedBinaryTree[K, uint64]() },
		newKey:  func(int) K { return gen() },
		clone:   func(k K) K { return k },
		eq:      func(a, b K) bool { return a == b },
		less:    func(a, b K) bool { return a < b },
		trace:   func(tag string, k K) { vpTrace(tag, uint64(int64(k))) },
	}
}

func f32Eq(a, b float32) bool {
	return vpOr(vpAnd(a != a, b != b), math.Float32bits(a) == math.Float32bits(b))
}

// NaN < -Inf < ... < -0 < +0 < ... < +Inf
func f32Less(a, b float32) bool {
	an, bn := a != a, b != b
	num := vpOr(a < b, vpAnd(a == b, math.Float32bits(a) > math.Float32bits(b)))
	return vpOr(vpAnd(an, !bn), vpAnd(vpAnd(!an, !bn), num))
}

func f64Eq(a, b float64) bool {
	return vpOr(vpAnd(a != a, b != b), math.Float64bits(a) == math.Float64bits(b))
}

func f64Less(a, b float64) bool {
	an, bn := a != a, b != b
	num := vpOr(a < b, vpAnd(a == b, math.Float64bits(a) > math.Float64bits(b)))
	return vpOr(vpAnd(an, !bn), vpAnd(vpAnd(!an, !bn), num))
}

func hkF32() *hk[float32] {
	return &hk[float32]{
		newTree: func() Tree[float32, uint64] { return NewFloatBinaryTree[float32, uint64]() },
		newKey:  func(int) float32 { return vpF32() },
		clone:   func(k float32) float32 { return k },
		eq:      f32Eq,
		less:    f32Less,
		trace: func(tag string, k float32) {
			b := math.Float32bits(k)
			vpTrace(tag, vpIte64(k != k, 0x7fc00000, uint64(b)))
		},
	}
}

func hkF64() *hk[float64] {
	return &hk[float64]{
		newTree: func() Tree[float64, uint64] { return NewFloatBinaryTree[float64, uint64]() },
		newKey:  func(int) float64 { return vpF64() },
		clone:   func(k float64) float64 { return k },
		eq:      f64Eq,
		less:    f64Less,
		trace: func(tag string, k float64) {
			b := math.Float64bits(k)
			vpTrace(tag, vpIte64(k != k, 0x7ff8000000000000, b))
		},
	}
}

func init() { vpRegister("hHist", hHist) }

func hHist() {
	switch vpParam(0) {
	case 0:
		runHist(hkAlphaBytes())
	case 1:
		runHist(hkAlphaString())
	case 2:
		runHist(hkUnsigned(vpU8))
	case 3:
		runHist(hkUnsigned(vpU16))
	case 4:
		runHist(hkUnsigned(vpU32))
	case 5:
		runHist(hkUnsigned(vpU64))
	case 6:
		runHist(hkUnsigned(func() uint { return uint(vpU64()) }))
	case 7:
		runHist(hkSigned(func() int8 { return int8(vpU8()) }))
	case 8:
		runHist(hkSigned(func() int16 { return int16(vpU16()) }))
	case 9:
		runHist(hkSigned(func() int32 { return int32(vpU32()) }))
	case 10:
		runHist(hkSigned(func() int64 { return int64(vpU64()) }))
	case 11:
		runHist(hkSigned(func() int { return int(vpU64()) }))
	case 12:
		runHist(hkF32())
	case 13:
		runHist(hkF64())
	default:
		vpFail("unknown kind")
	}
}
