//go:build verif

package art

// C12 / C16: several trees of mixed kinds interleaved on one goroutine, sharing the node pools.
//
// params: 0 pool mode (0 reuse, 1 fresh); 1 kind of tree A; 2 kind of tree B; 3 check mask; 4 nOps;
//         then nOps × (tree 0/1, opKind, keySpec); opKind as in hHist (0/1 symbolic insert/delete, 3/4 concrete);
//         then the two final probe specs (bit 30 = concrete).
// Each tree has its own reference map; every result is compared with what the tree would produce alone.

func init() { vpRegister("hTwo", hTwo) }

type treeRunner interface {
	prep(op, spec int) func()
	step(op, spec int, mask int)
	final(mask int, probeSpec int)
}

type runner[K any] struct {
	h     *hk[K]
	t     Tree[K, uint64]
	ref   *refMap[K]
	actor int
	ins   []K
}

func newRunner[K any](h *hk[K], actor int) *runner[K] {
	return &runner[K]{h: h, t: h.newTree(), ref: &refMap[K]{h: h}, actor: actor}
}

// prep draws the operation's key/value exactly as step does and returns the bare tree operation.
func (r *runner[K]) prep(op, spec int) func() {
	h := r.h
	var k K
	if op == opInsertC || op == opDeleteC {
		k = h.concKey(spec)
		op -= 3
	} else {
		k = h.newKey(spec)
	}
	if op == opInsert {
		v := vpU64()
		return func() { r.t.Insert(h.clone(k), v) }
	}
	return func() { r.t.Delete(h.clone(k)) }
}

func (r *runner[K]) step(op, spec int, mask int) {
	h := r.h
	var k K
	if op == opInsertC || op == opDeleteC {
		k = h.concKey(spec)
		op -= 3
	} else {
		k = h.newKey(spec)
	}
	switch op {
	case opInsert:
		v := vpU64()
		if h.isAlpha {
			bad := false
			for _, o := range r.ins {
				bad = vpOr(bad, termPrefixRel(h.bytesOf(o), h.bytesOf(k)))
			}
			vpAssume(!bad)
			r.ins = append(r.ins, k)
		}
		if h.onInsert != nil {
			h.onInsert(k)
		}
		vpApi()
		vpActor(r.actor)
		r.t.Insert(h.clone(k), v)
		vpActor(0)
		r.ref.put(k, v)
	case opDelete:
		vpApi()
		vpActor(r.actor)
		got := r.t.Delete(h.clone(k))
		vpActor(0)
		want := r.ref.del(k)
		vpAssert(got == want, "C12 Delete result differs from what the tree would return alone")
	}
	vpAssert(uint64(r.t.Size()) == r.ref.count(), "C12 Size differs from what the tree would report alone")
	if mask&ckShape != 0 {
		st := h.state(r.t)
		vpAssert(wellFormed(st.lv, st.root, st.size), "C12 index not well-formed after an interleaved operation")
	}
}

func (r *runner[K]) final(mask int, probeSpec int) {
	h := r.h
	pk := mkKey(h, probeSpec)
	vpApi()
	vpActor(r.actor)
	got, ok := r.t.Search(h.clone(pk))
	vpActor(0)
	want, wok := r.ref.get(pk)
	vpTrace("search.ok", vpB2U(ok))
	vpAssert(ok == wok, "C12 Search presence differs from what the tree would return alone")
	vpAssert(vpOr(!ok, got == want), "C12 Search value differs from what the tree would return alone")
	vpApi()
	vpActor(r.actor)
	fw := collect(r.t.All())
	bw := collect(r.t.Backward())
	vpActor(0)
	vpTrace("all.n", uint64(len(fw.ks)))
	vpAssert(sortedContent(r.ref, fw, false, nil), "C12 All() differs from what the tree would yield alone")
	vpAssert(sortedContent(r.ref, bw, true, nil), "C12 Backward() differs from what the tree would yield alone")
	st := h.state(r.t)
	vpAssert(wellFormed(st.lv, st.root, st.size), "C12 index not well-formed at the end of the interleaving")
}

func mkRunner(kind, actor int) treeRunner {
	switch kind {
	case 0:
		return newRunner(hkAlphaBytes(), actor)
	case 1:
		return newRunner(hkAlphaString(), actor)
	case 2:
		return newRunner(hkUnsigned(vpU8), actor)
	case 3:
		return newRunner(hkUnsigned(vpU16), actor)
	case 7:
		return newRunner(hkSigned(func() int8 { return int8(vpU8()) }), actor)
	case 12:
		return newRunner(hkF32(), actor)
	case 14:
		// collation tree over strings; each tree has its own table of collation keys (the specs of the two trees use
		// different universe entries)
		return newRunner(hkColl(&collEnv{}, func(s string) string { return s }, func(k string) string { return k }), actor)
	}
	vpFail("unknown kind for hTwo")
	return nil
}

func hTwo() {
	vpPoolMode(vpParam(0))
	a := mkRunner(vpParam(1), 1)
	b := mkRunner(vpParam(2), 2)
	mask := vpParam(3)
	n := vpParam(4)
	if vpRaceNative() {
		// native confirmation of a C16 footprint conflict: same keys (same tape order), the two trees' operation
		// lists run in two goroutines under the race detector
		var opsA, opsB []func()
		for i := 0; i < n; i++ {
			which, op, spec := vpParam(5+3*i), vpParam(5+3*i+1), vpParam(5+3*i+2)
			if which == 0 {
				opsA = append(opsA, a.prep(op, spec))
			} else {
				opsB = append(opsB, b.prep(op, spec))
			}
		}
		vpRunConcurrently(func() {
			for _, f := range opsA {
				f()
			}
		}, func() {
			for _, f := range opsB {
				f()
			}
		})
		return
	}
	for i := 0; i < n; i++ {
		which, op, spec := vpParam(5+3*i), vpParam(5+3*i+1), vpParam(5+3*i+2)
		if which == 0 {
			a.step(op, spec, mask)
		} else {
			b.step(op, spec, mask)
		}
	}
	a.final(mask, vpParam(5+3*n))
	b.final(mask, vpParam(5+3*n+1))
	if mask&ckPure != 0 { // the footprint premise belongs to C16; C12 judges behaviour only
		vpAssert(vpConflicts() == 0, "C16 two trees touched the same memory outside the synchronised pool (or wrote package-level state)")
	}
}
