//go:build verif

package art

// Harness primitives. Under the symbolic executor every vp* call is intercepted by name and these
// bodies are never looked at; natively (replay) they are driven by a tape of concrete values.

import (
	"math"
	"os"
	"runtime"
	"sync"
	"unsafe"
)

type vpTapeEntry struct {
	W uint8  `json:"w"`
	V uint64 `json:"v"`
}

type vpTraceVal struct {
	Tag string `json:"tag"`
	Val uint64 `json:"val"`
}

type vpAbort struct {
	Kind string
	Tag  string
}

type vpHarnessEnt struct {
	name string
	fn   func()
}

var (
	vpTape      []vpTapeEntry
	vpPos       int
	vpParams    []int
	vpTraces    []vpTraceVal
	vpHarnesses []vpHarnessEnt
	vpWidthErr  bool
	vpPoolModeV int
	vpFailed    []string
)

// vpReset clears per-run native state (hooked by other harness files through vpResetHooks).
var vpResetHooks []func()

func vpReset() {
	vpPoolModeV = 0
	for _, h := range vpResetHooks {
		h()
	}
}

func vpRegister(name string, fn func()) { vpHarnesses = append(vpHarnesses, vpHarnessEnt{name, fn}) }

func vpNext(w uint8) uint64 {
	if vpPos >= len(vpTape) {
		vpPos++
		return 0
	}
	e := vpTape[vpPos]
	vpPos++
	if e.W != w {
		vpWidthErr = true
	}
	return e.V
}

func vpU8() uint8       { return uint8(vpNext(8)) }
func vpU16() uint16     { return uint16(vpNext(16)) }
func vpU32() uint32     { return uint32(vpNext(32)) }
func vpU64() uint64     { return vpNext(64) }
func vpF32() float32    { return math.Float32frombits(uint32(vpNext(32))) }
func vpF64() float64    { return math.Float64frombits(vpNext(64)) }
func vpBool() bool      { return vpNext(8) != 0 }
func vpNParams() int    { return len(vpParams) }
func vpParam(i int) int { return vpParams[i] }

func vpBytes(n int) []byte {
	b := make([]byte, n)
	for i := range b {
		b[i] = vpU8()
	}
	return b
}

func vpString(n int) string { return string(vpBytes(n)) }

func vpAssume(c bool) {
	if !c {
		panic(vpAbort{"assume", ""})
	}
}

// vpAssert records a failed assertion and continues (the executor also continues past assertions), so
// that every violated assertion of a path can be confirmed by one native run.
func vpAssert(c bool, tag string) {
	if !c {
		vpFailed = append(vpFailed, tag)
	}
}

func vpFail(tag string) { panic(vpAbort{"fail", tag}) }

func vpTrace(tag string, x uint64) { vpTraces = append(vpTraces, vpTraceVal{tag, x}) }

func vpAnd(a, b bool) bool { return a && b }
func vpOr(a, b bool) bool  { return a || b }

func vpIte64(c bool, a, b uint64) uint64 {
	if c {
		return a
	}
	return b
}

func vpIteInt(c bool, a, b int) int {
	if c {
		return a
	}
	return b
}

func vpIteBool(c bool, a, b bool) bool {
	if c {
		return a
	}
	return b
}

func vpB2U(c bool) uint64 {
	if c {
		return 1
	}
	return 0
}

func vpEqBytes(a, b []byte) bool { return string(a) == string(b) }

func vpLessBytes(a, b []byte) bool { return string(a) < string(b) }

func vpHasPrefix(a, p []byte) bool { return len(a) >= len(p) && string(a[:len(p)]) == string(p) }

func vpApi() {}

func vpPoolMode(m int) { vpPoolModeV = m }

// ---- heap observers: symbolic side = the executor's heap; native side = canonical structural dump ----

type vpTreeState struct {
	root nodeRef
	size int
	lv   *leafView
}

var vpSnaps []string

func vpSnapshot(s vpTreeState) int {
	a, _ := dumpTree(s.lv, s.root, s.size, true)
	b, _ := dumpTree(s.lv, s.root, s.size, false)
	vpSnaps = append(vpSnaps, a, b)
	return len(vpSnaps)/2 - 1
}

func vpUnchanged(i int, s vpTreeState) bool {
	a, _ := dumpTree(s.lv, s.root, s.size, true)
	return a == vpSnaps[2*i]
}

func vpUnchangedButValues(i int, s vpTreeState) bool {
	b, _ := dumpTree(s.lv, s.root, s.size, false)
	return b == vpSnaps[2*i+1]
}

func vpRetained(s vpTreeState) uint64 {
	_, n := dumpTree(s.lv, s.root, s.size, false)
	return uint64(n)
}

// vpReachableLeaves: leaf objects reachable from the index through ANY pointer slot, occupied or not (a slot
// beyond the fan-out that still points at a removed leaf keeps that leaf, its key and its value alive).
// Executor: objects of a leaf type among everything reachable from the tree state. Native: the same walk.
func vpReachableLeaves(s vpTreeState) uint64 {
	seen := map[unsafe.Pointer]bool{}
	var n uint64
	var walk func(ref nodeRef, depth int)
	walk = func(ref nodeRef, depth int) {
		if ref.pointer == nil || seen[ref.pointer] || depth > 64 {
			return
		}
		seen[ref.pointer] = true
		switch ref.tag {
		case nodeKindLeaf:
			n++
		case nodeKind4:
			x := (*node4)(ref.pointer)
			for i := range x.children {
				walk(x.children[i], depth+1)
			}
		case nodeKind16:
			x := (*node16)(ref.pointer)
			for i := range x.children {
				walk(x.children[i], depth+1)
			}
		case nodeKind48:
			x := (*node48)(ref.pointer)
			for i := range x.children {
				walk(x.children[i], depth+1)
			}
		case nodeKind256:
			x := (*node256)(ref.pointer)
			for i := range x.children {
				walk(x.children[i], depth+1)
			}
		}
	}
	walk(s.root, 0)
	return n
}

func vpPoolOps() uint64          { return 0 }
func vpActor(int)                {}
func vpConflicts() uint64        { return 0 }
func vpReaderWindow(int)         {}
func vpReaderWrites() uint64     { return 0 }
func vpDisciplineEvents() uint64 { return 0 }

func init() { vpResetHooks = append(vpResetHooks, func() { vpSnaps = nil }) }

// FP-theory predicates on bit patterns: under the executor these become fp.lt / fp.eq / fp.isNaN of the
// solver's floating-point theory (used only by the lemma harnesses); natively they are the machine's.
func vpFpLt32(a, b uint32) bool { return math.Float32frombits(a) < math.Float32frombits(b) }
func vpFpEq32(a, b uint32) bool { return math.Float32frombits(a) == math.Float32frombits(b) }
func vpFpIsNaN32(a uint32) bool { x := math.Float32frombits(a); return x != x }
func vpFpLt64(a, b uint64) bool { return math.Float64frombits(a) < math.Float64frombits(b) }
func vpFpEq64(a, b uint64) bool { return math.Float64frombits(a) == math.Float64frombits(b) }
func vpFpIsNaN64(a uint64) bool { x := math.Float64frombits(a); return x != x }

// vpRetainedTree: bytes kept alive by the tree. Executor: exact size of the objects reachable from t in its
// heap model. Native: live heap after two forced collections.
func vpRetainedTree(t any) uint64 {
	runtime.GC()
	runtime.GC()
	var m runtime.MemStats
	runtime.ReadMemStats(&m)
	runtime.KeepAlive(t)
	return m.HeapAlloc
}

// vpReps: how often a cycle is repeated: sym under the executor (induction), nat natively (amplification).
func vpReps(sym, nat int) int { return nat }

// vpNoGrowth: after <= before + slack. Native measurements get 256 KiB of additional slack.
func vpNoGrowth(before, after, slack uint64) bool { return after <= before+slack+256<<10 }

// vpGCNative: native replays of C18 force collections between operations (the executor answers false).
func vpGCNative() bool { return true }

// ---- C16 native confirmation: the two sides run in goroutines under the race detector ----

// vpRaceNative: true only in a native replay started with VERIF_RACE=1 (the executor answers false).
func vpRaceNative() bool { return os.Getenv("VERIF_RACE") != "" }

// vpRunConcurrently: executor: fa then fb; native race replay: both at once, repeated to give the detector a chance.
func vpRunConcurrently(fa, fb func()) {
	if !vpRaceNative() {
		fa()
		fb()
		return
	}
	var wg sync.WaitGroup
	wg.Add(2)
	go func() { defer wg.Done(); fa() }()
	go func() { defer wg.Done(); fb() }()
	wg.Wait()
}
