//go:build verif

package art

// C10: inner nodes driven directly (no tree around them). Package-internal access replaces the
// build-tag-guarded exports the property sheet mentions: nothing is added to /repo.

import "unsafe"

func init() {
	vpRegister("hWordOps", hWordOps)
	vpRegister("hNode4Step", hNode4Step)
	vpRegister("hNode16Step", hNode16Step)
	vpRegister("hNodeBase", hNodeBase)
}

// ---- (a) word helpers of node4 against lane-array semantics -----------------------------------

func lanesOf(k uint32) [4]byte { return [4]byte{byte(k), byte(k >> 8), byte(k >> 16), byte(k >> 24)} }

// param 0: pos (0..4)
func hWordOps() {
	pos := vpParam(0)
	keys, b := vpU32(), vpU8()
	old := lanesOf(keys)
	vpTrace("keys", uint64(keys))
	if pos <= 3 {
		vpAssert(getAtPos(keys, pos) == old[pos], "C10 getAtPos reads lane pos")
		k := keys
		setAtPos(&k, pos, b)
		nl := lanesOf(k)
		ok := true
		for i := 0; i < 4; i++ {
			if i == pos {
				ok = vpAnd(ok, nl[i] == b)
			} else {
				ok = vpAnd(ok, nl[i] == old[i])
			}
		}
		vpAssert(ok, "C10 setAtPos writes lane pos and nothing else")
		k = keys
		shiftLeftClear(&k, pos)
		nl = lanesOf(k)
		ok = true
		for i := 0; i < 4; i++ {
			switch {
			case i < pos:
				ok = vpAnd(ok, nl[i] == old[i])
			case i == pos:
				ok = vpAnd(ok, nl[i] == 0)
			default:
				ok = vpAnd(ok, nl[i] == old[i-1])
			}
		}
		vpAssert(ok, "C10 shiftLeftClear opens lane pos (lanes above move up by one, lane pos cleared)")
	}
	if pos >= 1 {
		k := keys
		shiftRightClear(&k, pos)
		nl := lanesOf(k)
		ok := true
		for i := 0; i < 3; i++ {
			if i < pos-1 {
				ok = vpAnd(ok, nl[i] == old[i])
			} else {
				ok = vpAnd(ok, nl[i] == old[i+1])
			}
		}
		ok = vpAnd(ok, nl[3] == old[3])
		vpAssert(ok, "C10 shiftRightClear closes lane pos-1 (lanes above move down by one, top lane keeps its byte)")
	}
	c := construct(old[0], old[1], old[2], old[3])
	vpAssert(c == keys, "C10 construct packs four lanes")
	d := deconstruct(keys)
	vpAssert(len(d) == 4 && vpAnd(vpAnd(d[0] == old[0], d[1] == old[1]), vpAnd(d[2] == old[2], d[3] == old[3])), "C10 deconstruct unpacks four lanes")
}

// ---- child tokens ------------------------------------------------------------------------------

func tokenLeaf(id uint64) nodeRef {
	kb := []byte{byte(id)}
	return nodeRef{pointer: unsafe.Pointer(&alphaLeafNode[uint64]{key: unsafe.SliceData(kb), value: id, len: 1}), tag: nodeKindLeaf}
}

// tokenInner: an inner node4 token with a symbolic compressed path of length plen (for the collapse merge)
func tokenInner(id uint64, plen int) nodeRef {
	n := new(node4)
	n.prefixLen = uint32(plen)
	for i := 0; i < plen && i < maxPrefixLen; i++ {
		n.prefix[i] = vpU8()
	}
	n.childrenLen = 2
	n.keys = construct(1, 2, 0, 0)
	n.children[0] = tokenLeaf(id*16 + 1)
	n.children[1] = tokenLeaf(id*16 + 2)
	return nodeRef{pointer: unsafe.Pointer(n), tag: nodeKind4}
}

// tokenID: identity of a child token (0 for "no child")
func tokenID(r *nodeRef) uint64 {
	if r == nil || r.pointer == nil {
		return 0
	}
	if r.tag == nodeKindLeaf {
		return (*alphaLeafNode[uint64])(r.pointer).value
	}
	if r.tag == nodeKind4 {
		n := (*node4)(r.pointer)
		if n.children[0].pointer != nil && n.children[0].tag == nodeKindLeaf {
			return (*alphaLeafNode[uint64])(n.children[0].pointer).value / 16
		}
	}
	return 0xdead
}

// ---- generic view of a node for the post-conditions --------------------------------------------

// nodeFindID: what the node under ref answers for probe p, as a token id.
func nodeFindID(ref *nodeRef, p byte) uint64 {
	return tokenID(ref.findChild(p))
}

// nodeInv: representation invariant of the node ref points to, plus ascending enumeration.
// Inv4: len<=4, occupied lanes strictly ascending, unoccupied lanes all equal to each other.
// Inv16: len<=16, occupied lanes strictly ascending. Inv48: index table and slots agree. Inv256: counter.
func nodeInv(ref nodeRef) bool {
	ok := true
	switch ref.tag {
	case nodeKind4:
		n := (*node4)(ref.pointer)
		l := int(n.childrenLen)
		if l > 4 {
			return false
		}
		ln := lanesOf(n.keys)
		for i := 0; i+1 < l; i++ {
			ok = vpAnd(ok, ln[i] < ln[i+1])
		}
		for i := l; i+1 < 4; i++ {
			ok = vpAnd(ok, ln[i] == ln[i+1])
		}
		for i := 0; i < l; i++ {
			ok = vpAnd(ok, n.children[i].pointer != nil)
		}
	case nodeKind16:
		n := (*node16)(ref.pointer)
		l := int(n.childrenLen)
		if l > 16 {
			return false
		}
		for i := 0; i+1 < l; i++ {
			ok = vpAnd(ok, n.keys[i] < n.keys[i+1])
		}
		for i := 0; i < l; i++ {
			ok = vpAnd(ok, n.children[i].pointer != nil)
		}
	case nodeKind48, nodeKind256:
		_, ok = childrenOf(ref)
	default:
		return false
	}
	return ok
}

// ---- (b) node4: one step from an arbitrary valid state ------------------------------------------

// params: 0 fill count n (0..4); 1 op (0 add absent byte, 1 remove present byte, 2 find only);
//
//	2 stale slots beyond n hold tokens (1) or nil (0); 3 prefixLen of the node;
//	4 child kind (0 leaves, 1 inner nodes with path length param 5); 5 child path length
func hNode4Step() {
	n, op, stale, plen, ckind, cplen := vpParam(0), vpParam(1), vpParam(2), vpParam(3), vpParam(4), vpParam(5)
	n4 := new(node4)
	n4.keys = vpU32()
	n4.childrenLen = uint8(n)
	n4.prefixLen = uint32(plen)
	for i := 0; i < plen && i < maxPrefixLen; i++ {
		n4.prefix[i] = vpU8()
	}
	mk := func(id uint64) nodeRef {
		if ckind == 1 {
			return tokenInner(id, cplen)
		}
		return tokenLeaf(id)
	}
	for i := 0; i < 4; i++ {
		if i < n || stale == 1 {
			n4.children[i] = mk(uint64(i + 1))
		}
	}
	ref := nodeRef{pointer: unsafe.Pointer(n4), tag: nodeKind4}
	vpAssume(nodeInv(ref)) // arbitrary state satisfying Inv4
	pre := lanesOf(n4.keys)
	prePrefix := n4.prefix
	// specification of lookup on the pre-state: first occupied lane equal to p
	preFind := func(p byte) uint64 {
		var id uint64
		for i := n - 1; i >= 0; i-- {
			id = vpIte64(pre[i] == p, uint64(i+1), id)
		}
		return id
	}
	b, p := vpU8(), vpU8()
	vpTrace("b", uint64(b))
	switch op {
	case 0:
		vpAssume(preFind(b) == 0)
		vpApi()
		ref.addChild(b, mk(9))
		vpAssert(nodeInv(ref), "C10 node4 add: result satisfies its class invariant (ascending, fill count)")
		want := vpIte64(p == b, 9, preFind(p))
		vpAssert(nodeFindID(&ref, p) == want, "C10 node4 add: every probe byte finds exactly the child registered under it")
		if n < 4 {
			vpAssert(ref.tag == nodeKind4 && int((*node4)(ref.pointer).childrenLen) == n+1, "C10 node4 add: stays node4 with one more child")
		} else {
			vpAssert(ref.tag == nodeKind16 && int((*node16)(ref.pointer).childrenLen) == 5, "C10 node4 add: full node grows to node16 with five children")
		}
	case 1:
		vpAssume(preFind(b) != 0)
		victim := preFind(b)
		vpApi()
		ref.deleteChild(b)
		want := vpIte64(p == b, 0, preFind(p))
		if n == 2 {
			// collapse: the node is replaced by its remaining child
			vpAssert(tokenID(&ref) == vpIte64(victim == 1, 2, 1), "C10 node4 remove: a node left with one child is replaced by that child")
			if ckind == 1 {
				child := (*node4)(ref.pointer)
				// merged path: parent path + branch byte + child path
				rem := vpIte64(victim == 1, uint64(pre[1]), uint64(pre[0]))
				vpAssert(int(child.prefixLen) == plen+1+cplen, "C10 node4 collapse: merged path length = parent + 1 + child")
				ok := true
				for i := 0; i < maxPrefixLen && i < plen+1; i++ {
					if i < plen {
						ok = vpAnd(ok, child.prefix[i] == prePrefix[i])
					} else {
						ok = vpAnd(ok, uint64(child.prefix[i]) == rem)
					}
				}
				vpAssert(ok, "C10 node4 collapse: merged inline path starts with the parent's path and the branch byte")
			}
		} else if n > 2 {
			vpAssert(nodeInv(ref), "C10 node4 remove: result satisfies its class invariant")
			vpAssert(ref.tag == nodeKind4 && int((*node4)(ref.pointer).childrenLen) == n-1, "C10 node4 remove: one child fewer")
			vpAssert(nodeFindID(&ref, p) == want, "C10 node4 remove: every probe byte finds exactly the child registered under it")
		}
	case 2:
		vpApi()
		vpAssert(nodeFindID(&ref, p) == preFind(p), "C10 node4 find: SWAR lookup equals the scalar scan over occupied lanes whatever the unoccupied lanes hold")
	}
}

// ---- (b) node16 ----------------------------------------------------------------------------------

// params: 0 fill count n (0..16); 1 op; 2 stale slots hold tokens (1) / nil (0)
func hNode16Step() {
	n, op, stale := vpParam(0), vpParam(1), vpParam(2)
	n16 := new(node16)
	for i := 0; i < 16; i++ {
		n16.keys[i] = vpU8() // unoccupied lanes arbitrary
	}
	n16.childrenLen = uint8(n)
	for i := 0; i < 16; i++ {
		if i < n || stale == 1 {
			n16.children[i] = tokenLeaf(uint64(i + 1))
		}
	}
	ref := nodeRef{pointer: unsafe.Pointer(n16), tag: nodeKind16}
	vpAssume(nodeInv(ref))
	pre := n16.keys
	preFind := func(p byte) uint64 {
		var id uint64
		for i := n - 1; i >= 0; i-- {
			id = vpIte64(pre[i] == p, uint64(i+1), id)
		}
		return id
	}
	b, p := vpU8(), vpU8()
	vpTrace("b", uint64(b))
	switch op {
	case 0:
		vpAssume(preFind(b) == 0)
		vpApi()
		ref.addChild(b, tokenLeaf(99))
		vpAssert(nodeInv(ref), "C10 node16 add: result satisfies its class invariant")
		want := vpIte64(p == b, 99, preFind(p))
		vpAssert(nodeFindID(&ref, p) == want, "C10 node16 add: every probe byte finds exactly the child registered under it")
		if n < 16 {
			vpAssert(ref.tag == nodeKind16 && int((*node16)(ref.pointer).childrenLen) == n+1, "C10 node16 add: stays node16 with one more child")
		} else {
			vpAssert(ref.tag == nodeKind48 && int((*node48)(ref.pointer).childrenLen) == 17, "C10 node16 add: full node grows to node48 with seventeen children")
		}
	case 1:
		vpAssume(preFind(b) != 0)
		vpApi()
		ref.deleteChild(b)
		want := vpIte64(p == b, 0, preFind(p))
		vpAssert(nodeInv(ref), "C10 node16 remove: result satisfies its class invariant")
		vpAssert(nodeFindID(&ref, p) == want, "C10 node16 remove: every probe byte finds exactly the child registered under it")
		if n == 4 {
			vpAssert(ref.tag == nodeKind4 && int((*node4)(ref.pointer).childrenLen) == 3, "C10 node16 remove: shrinks to node4 at three children")
		} else if n > 4 {
			vpAssert(ref.tag == nodeKind16 && int((*node16)(ref.pointer).childrenLen) == n-1, "C10 node16 remove: one child fewer")
		}
	case 2:
		vpApi()
		vpAssert(nodeFindID(&ref, p) == preFind(p), "C10 node16 find: SIMD lookup equals the scalar scan over occupied lanes whatever the unoccupied lanes hold")
	}
}

// ---- (c) node48 / node256: concrete base, one symbolic add / remove, symbolic probe, enumeration -

// params: 0 number of base children m; 1 number grown to first (0 = none); 2 op (0 add,1 remove,2 find);
//
//	3 probe mode (0 symbolic probe, 1 probe = the updated byte); 4.. the base bytes (max(m,from) of them)
func hNodeBase() {
	m, from, op, pmode := vpParam(0), vpParam(1), vpParam(2), vpParam(3)
	tot := m
	if from > m {
		tot = from
	}
	ref := nodeRef{pointer: unsafe.Pointer(nodePools[nodeKind4].Get().(*node4)), tag: nodeKind4}
	var bytes []byte
	for i := 0; i < tot; i++ {
		bb := byte(vpParam(4 + i))
		bytes = append(bytes, bb)
		ref.addChild(bb, tokenLeaf(uint64(bb)+1000))
	}
	for i := tot - 1; i >= m; i-- {
		ref.deleteChild(bytes[i])
	}
	bytes = bytes[:m]
	preFind := func(p byte) uint64 {
		var id uint64
		for _, bb := range bytes {
			id = vpIte64(p == bb, uint64(bb)+1000, id)
		}
		return id
	}
	b := vpU8()
	p := b
	if pmode == 0 {
		p = vpU8()
	}
	vpTrace("b", uint64(b))
	want := preFind(p)
	switch op {
	case 0:
		vpAssume(preFind(b) == 0)
		vpApi()
		ref.addChild(b, tokenLeaf(7))
		want = vpIte64(p == b, 7, want)
	case 1:
		vpAssume(preFind(b) != 0)
		vpApi()
		ref.deleteChild(b)
		want = vpIte64(p == b, 0, want)
	}
	if ref.tag == nodeKindLeaf {
		// a node4 left with one child was replaced by that child
		vpAssert(m == 2 && op == 1, "C10 base node: only a two-child node4 may collapse")
		return
	}
	vpApi()
	vpAssert(nodeFindID(&ref, p) == want, "C10 base node: every probe byte finds exactly the child registered under it")
	if pmode == 1 && len(bytes) > 0 {
		q := bytes[0]
		wq := preFind(q)
		if op == 1 {
			wq = vpIte64(q == b, 0, wq)
		}
		vpAssert(nodeFindID(&ref, q) == wq, "C10 base node: an untouched byte still finds its child")
	}
	// slots, index table and counter agree; node4/16/256 enumerate ascending by byte
	kids, ok := childrenOf(ref)
	vpAssert(ok, "C10 base node: slots, index table and fan-out counter agree")
	if ref.tag != nodeKind48 {
		asc := true
		for i := 0; i+1 < len(kids); i++ {
			asc = vpAnd(asc, kids[i].b < kids[i+1].b)
		}
		vpAssert(asc, "C10 base node: children enumerate in ascending unsigned byte order")
	}
	vpTrace("kids", uint64(len(kids)))
}
