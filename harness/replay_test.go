//go:build verif

package art

// Native replay driver: runs harnesses against the real build with concrete tapes.

import (
	"bufio"
	"encoding/json"
	"fmt"
	"os"
	"runtime"
	"runtime/debug"
	"testing"
	"time"
)

type vpReplayReq struct {
	ID      int           `json:"id"`
	Harness string        `json:"harness"`
	Params  []int         `json:"params"`
	Tape    []vpTapeEntry `json:"tape"`
	GCMode  int           `json:"gcmode"` // 0 default, 1 forced GC around pool use (fresh), 2 GC off
}

type vpReplayRes struct {
	ID      int          `json:"id"`
	Outcome string       `json:"outcome"`
	Tag     string       `json:"tag"`
	Msg     string       `json:"msg"`
	Traces  []vpTraceVal `json:"traces"`
	Used    int          `json:"used"`
	Failed  []string     `json:"failed"`
}

func vpRunOne(req vpReplayReq) (res vpReplayRes) {
	res.ID = req.ID
	var fn func()
	for _, h := range vpHarnesses {
		if h.name == req.Harness {
			fn = h.fn
		}
	}
	if fn == nil {
		res.Outcome = "noharness"
		return
	}
	vpTape, vpPos, vpParams, vpTraces, vpWidthErr = req.Tape, 0, req.Params, nil, false
	vpFailed = nil
	vpReset()
	done := make(chan struct{})
	go func() {
		defer close(done)
		defer func() {
			if r := recover(); r != nil {
				if a, ok := r.(vpAbort); ok {
					res.Outcome, res.Tag = a.Kind, a.Tag
					return
				}
				res.Outcome = "panic"
				res.Msg = fmt.Sprintf("%v", r)
				if os.Getenv("VERIF_STACK") != "" {
					res.Msg += "\n" + string(debug.Stack())
				}
			}
		}()
		fn()
		res.Outcome = "ok"
		if len(vpFailed) > 0 {
			res.Outcome, res.Tag = "assert", vpFailed[0]
		}
	}()
	select {
	case <-done:
	case <-time.After(20 * time.Second):
		res.Outcome = "hang"
		return
	}
	res.Traces = vpTraces
	res.Failed = vpFailed
	res.Used = vpPos
	if vpWidthErr && res.Outcome == "ok" {
		res.Outcome = "widtherr"
	}
	return
}

func TestVerifReplay(t *testing.T) {
	in := os.Getenv("VERIF_TAPES")
	out := os.Getenv("VERIF_RESULTS")
	if in == "" || out == "" {
		t.Skip("VERIF_TAPES / VERIF_RESULTS not set")
	}
	f, err := os.Open(in)
	if err != nil {
		t.Fatal(err)
	}
	defer f.Close()
	w, err := os.Create(out)
	if err != nil {
		t.Fatal(err)
	}
	defer w.Close()
	sc := bufio.NewScanner(f)
	sc.Buffer(make([]byte, 1<<20), 1<<26)
	for sc.Scan() {
		var req vpReplayReq
		if err := json.Unmarshal(sc.Bytes(), &req); err != nil {
			t.Fatal(err)
		}
		res := vpRunOne(req)
		b, _ := json.Marshal(res)
		w.Write(append(b, '\n'))
		w.Sync()
		if res.Outcome == "hang" {
			os.Exit(3)
		}
		runtime.Gosched()
	}
}
