#!/bin/bash
# usage: runmut.sh <mutant dir with wt/> <check ids...> : runs quick checks against a scratch worktree
M=$1; shift
for c in "$@"; do
  VERIF_REPO=$M/wt VERIF_OUT=$M/vout timeout 1500 /verif/bin/artsym3 check $c --tier ${TIER:-quick} 2>&1 | grep -v "^summary\|^slow" | cut -c1-400 | tail -6
done
